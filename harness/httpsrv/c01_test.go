package httpsrv

import (
	"bytes"
	"context"
	"crypto/sha256"
	"encoding/hex"
	"encoding/json"
	"errors"
	"fmt"
	"net/http"
	"net/http/httptest"
	"strings"
	"sync"
	"testing"
	"time"

	"pgregory.net/rapid"

	chain2 "github.com/drand/drand/v2/common/chain"
	client2 "github.com/drand/drand/v2/common/client"
	"github.com/drand/drand/v2/common/log"
	dhttp "github.com/drand/drand/v2/handler/http"
	"github.com/drand/drand/v2/protobuf/drand"
	"github.com/drand/drand/v2/verifharness/fx"
	"github.com/drand/drand/v2/verifharness/hlog"
	"github.com/drand/drand/v2/verifharness/stats"
)

// modelClient is the client.Client the HTTP handler is registered with: a chain signed by the harness, a head the harness
// moves, and a Watch stream whose items the harness chooses (normal, skipping, repeating, restarting).
type modelClient struct {
	mu     sync.Mutex
	net    *fx.Net
	info   *chain2.Info
	chain  map[uint64]*drand.PublicRandResponse
	head   uint64
	stream chan client2.Result
	gets   int
}

func (m *modelClient) beacon(r uint64) *drand.PublicRandResponse {
	b := m.chain[r]
	return &drand.PublicRandResponse{Round: b.Round, Signature: b.Signature, PreviousSignature: b.PreviousSignature, Randomness: b.Randomness}
}

func (m *modelClient) Get(_ context.Context, round uint64) (client2.Result, error) {
	m.mu.Lock()
	defer m.mu.Unlock()
	m.gets++
	if round == 0 {
		round = m.head
	}
	if round > m.head || m.chain[round] == nil {
		return nil, errors.New("model: round not available")
	}
	return m.beacon(round), nil
}

func (m *modelClient) Watch(ctx context.Context) <-chan client2.Result {
	m.mu.Lock()
	defer m.mu.Unlock()
	m.stream = make(chan client2.Result, 64)
	return m.stream
}

func (m *modelClient) Info(context.Context) (*chain2.Info, error) { return m.info, nil }
func (m *modelClient) RoundAt(time.Time) uint64                   { m.mu.Lock(); defer m.mu.Unlock(); return m.head }
func (m *modelClient) Close() error                               { return nil }

// emit moves the head to r and lets the watch stream deliver the beacon of round r.
func (m *modelClient) emit(r uint64) bool {
	m.mu.Lock()
	if r > m.head {
		m.head = r
	}
	s := m.stream
	b := m.beacon(r)
	m.mu.Unlock()
	if s == nil {
		return false
	}
	select {
	case s <- b:
		return true
	default:
		return false
	}
}

func (m *modelClient) restart() {
	m.mu.Lock()
	s := m.stream
	m.stream = nil
	m.mu.Unlock()
	if s != nil {
		close(s)
	}
}

type answer struct {
	path   string
	want   uint64 // 0 = latest
	code   int
	body   string
	headLo uint64
}

// TestC01HTTP: the HTTP clause of C01. The real handler/http server is registered with a model client; a rapid-generated
// history interleaves watch-stream items (next round, a skipped round, a repeat, a stream restart) with requests for the round
// after the latest (which the handler answers by waiting for the watcher), the latest, older rounds and rounds ahead.
// Oracle: a 2xx answer to /public/{r} is the JSON of a beacon whose round is r and which verifies under the chain key (own
// digest), with randomness = sha256(signature); /public/latest likewise for some round between the head before and after the
// request. Any non-2xx answer is acceptable.
func TestC01HTTP(t *testing.T) {
	rec := stats.Open(t, "C01")
	rapid.Check(t, func(rt *rapid.T) {
		scheme := rapid.SampledFrom(fx.SchemeNames).Draw(rt, "scheme")
		seed := rapid.Uint64Range(1, 1<<32).Draw(rt, "keyseed")
		useHashPath := rapid.Bool().Draw(rt, "hashPath")
		n := fx.NewNet(seed, fx.Opts{Scheme: scheme, N: 1, T: 1, Period: time.Second, Catchup: time.Second, Genesis: time.Now().Add(-100000 * time.Second).Unix(), BeaconID: "default"})
		mc := &modelClient{net: n, info: chain2.NewChainInfo(n.Group), chain: map[uint64]*drand.PublicRandResponse{}, head: 20}
		var prev []byte
		for r := uint64(1); r <= 90; r++ {
			var p []byte
			if fx.Chained(scheme) {
				p = prev
				if r == 1 {
					p = n.Group.GenesisSeed
				}
			}
			sig := n.Sign(r, p)
			d := sha256.Sum256(sig)
			mc.chain[r] = &drand.PublicRandResponse{Round: r, Signature: sig, PreviousSignature: p, Randomness: d[:]}
			prev = sig
		}
		lg := hlog.New(false)
		ctx, cancel := context.WithCancel(log.ToContext(context.Background(), lg))
		defer cancel()
		h, err := dhttp.New(ctx, "verif")
		if err != nil {
			rt.Fatalf("harness: %v", err)
		}
		hash := mc.info.HashString()
		bh := h.RegisterNewBeaconHandler(mc, hash)
		h.RegisterDefaultBeaconHandler(bh)
		prefix := ""
		if useHashPath {
			prefix = "/" + hash
		}
		get := func(path string, timeout time.Duration) (int, string) {
			c, cancel := context.WithTimeout(context.Background(), timeout)
			defer cancel()
			req := httptest.NewRequest(http.MethodGet, path, nil).WithContext(c)
			rr := httptest.NewRecorder()
			h.GetHTTPHandler().ServeHTTP(rr, req)
			return rr.Code, rr.Body.String()
		}
		var hist []string
		desc := func() string {
			return fmt.Sprintf("http %s hashPath=%v seed=%d :: %s", scheme, useHashPath, seed, strings.Join(hist, " "))
		}
		flags := map[string]bool{}
		check := func(a answer, headHi uint64) {
			if a.code/100 != 2 {
				return
			}
			var got struct {
				Round      uint64 `json:"round"`
				Signature  string `json:"signature"`
				Previous   string `json:"previous_signature"`
				Randomness string `json:"randomness"`
			}
			if err := json.Unmarshal([]byte(a.body), &got); err != nil {
				rec.Violation(rt, "C01/http-2xx-without-beacon", fmt.Sprintf("GET %s -> %d with a body that is not a beacon (%d bytes: %q) || case: %s", a.path, a.code, len(a.body), trunc(a.body, 80), desc()), map[string]any{"history": hist})
				return
			}
			if a.want != 0 && got.Round != a.want {
				rec.Violation(rt, "C01/http-answer-for-other-round", fmt.Sprintf("GET %s -> %d with the beacon of round %d || case: %s", a.path, a.code, got.Round, desc()), map[string]any{"history": hist})
				return
			}
			if a.want == 0 && (got.Round < a.headLo || got.Round > headHi) {
				rec.Violation(rt, "C01/http-latest-outside-head-interval", fmt.Sprintf("GET %s -> round %d, head was %d before and %d after || case: %s", a.path, got.Round, a.headLo, headHi, desc()), map[string]any{"history": hist})
				return
			}
			sig, _ := hex.DecodeString(got.Signature)
			pv, _ := hex.DecodeString(got.Previous)
			if err := fx.VerifyRef(n.Scheme, n.PublicKey(), got.Round, sig, pv); err != nil {
				rec.Violation(rt, "C01/http-beacon-does-not-verify", fmt.Sprintf("GET %s -> beacon of round %d does not verify: %v || case: %s", a.path, got.Round, err, desc()), map[string]any{"history": hist})
				return
			}
			if got.Randomness != "" {
				d := sha256.Sum256(sig)
				rnd, _ := hex.DecodeString(got.Randomness)
				if !bytes.Equal(d[:], rnd) {
					rec.Violation(rt, "C01/http-randomness-not-hash-of-signature", fmt.Sprintf("GET %s: randomness is not sha256(signature) || case: %s", a.path, desc()), map[string]any{"history": hist})
				}
			}
			flags["verified-2xx"] = true
		}
		// start the watcher (first request) and give it the current head so that it is "in sync"
		_, _ = get(prefix+"/public/20", 2*time.Second)
		waitStream := func() {
			for i := 0; i < 400; i++ {
				mc.mu.Lock()
				ok := mc.stream != nil
				mc.mu.Unlock()
				if ok {
					return
				}
				time.Sleep(5 * time.Millisecond)
			}
		}
		waitStream()
		mc.emit(20)
		time.Sleep(10 * time.Millisecond)
		latest := uint64(20) // what the handler's watcher saw last
		steps := rapid.IntRange(4, 14).Draw(rt, "steps")
		for s := 0; s < steps; s++ {
			// requests that will wait for the next watch item
			nw := rapid.IntRange(0, 3).Draw(rt, "waiters")
			var wg sync.WaitGroup
			var amu sync.Mutex
			var answers []answer
			mc.mu.Lock()
			headLo := mc.head
			mc.mu.Unlock()
			for w := 0; w < nw; w++ {
				r := latest + 1
				path := fmt.Sprintf("%s/public/%d", prefix, r)
				wg.Add(1)
				go func() {
					defer wg.Done()
					code, body := get(path, 3*time.Second)
					amu.Lock()
					answers = append(answers, answer{path: path, want: r, code: code, body: body, headLo: headLo})
					amu.Unlock()
				}()
			}
			if nw > 0 {
				time.Sleep(15 * time.Millisecond) // let them register as waiters
				flags["waiters"] = true
			}
			ev := rapid.SampledFrom([]string{"next", "next", "next", "skip", "skip2", "repeat", "restart", "older"}).Draw(rt, "event")
			switch ev {
			case "next":
				latest++
				mc.emit(latest)
			case "skip":
				latest += 2
				mc.emit(latest)
				flags["skip"] = true
			case "skip2":
				latest += 3
				mc.emit(latest)
				flags["skip"] = true
			case "repeat":
				mc.emit(latest)
			case "older":
				if latest > 22 {
					mc.emit(latest - 2)
					latest -= 2
				}
			case "restart":
				mc.restart()
				time.Sleep(350 * time.Millisecond) // the handler backs off 300 ms before it re-subscribes
				waitStream()
				latest = 0 // the handler forgets its position
				flags["restart"] = true
			}
			hist = append(hist, fmt.Sprintf("%s(waiters=%d)", ev, nw))
			if latest == 0 {
				mc.mu.Lock()
				latest = mc.head
				mc.mu.Unlock()
				latest++
				mc.emit(latest)
				hist = append(hist, "next-after-restart")
			}
			time.Sleep(10 * time.Millisecond)
			// direct requests
			mc.mu.Lock()
			head := mc.head
			mc.mu.Unlock()
			for _, r := range []uint64{head, head - 3, head + 1, 0} {
				if rapid.IntRange(0, 2).Draw(rt, "ask") == 0 {
					continue
				}
				path := fmt.Sprintf("%s/public/%d", prefix, r)
				if r == 0 {
					path = prefix + "/public/latest"
				}
				timeout := 3 * time.Second
				if r == head+1 {
					timeout = 150 * time.Millisecond
				}
				code, body := get(path, timeout)
				amu.Lock()
				answers = append(answers, answer{path: path, want: r, code: code, body: body, headLo: head})
				amu.Unlock()
			}
			wg.Wait()
			mc.mu.Lock()
			headHi := mc.head
			mc.mu.Unlock()
			for _, a := range answers {
				check(a, headHi)
			}
		}
		labels := []string{"http", "scheme/" + scheme}
		for f := range flags {
			labels = append(labels, f)
		}
		rec.Case(desc(), flags["waiters"] && (flags["skip"] || flags["restart"]), labels...)
	})
}

func trunc(s string, n int) string {
	if len(s) > n {
		return s[:n]
	}
	return s
}
