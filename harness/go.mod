module github.com/drand/drand/v2/verifharness

go 1.25.0

require (
	github.com/drand/drand/v2 v2.0.0
	pgregory.net/rapid v1.3.0
)

replace github.com/drand/drand/v2 => /repo
