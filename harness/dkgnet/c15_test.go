package dkgnet

import (
	"sync/atomic"
	"sync"
	"context"
	"fmt"
	"os"
	"path/filepath"
	"strings"
	"testing"
	"time"

	"google.golang.org/protobuf/proto"

	pdkg "github.com/drand/drand/v2/protobuf/dkg"
	"github.com/drand/drand/v2/verifharness/fx"
	"github.com/drand/drand/v2/verifharness/secretscan"
	"github.com/drand/drand/v2/verifharness/stats"
	"pgregory.net/rapid"
)

// TestC15DKGTraffic: every message that crosses the in-memory network during a key generation and a resharing, every DKG status
// answer and every log line (debug level) is scanned for the nodes' long-term scalars and key shares.
func TestC15DKGTraffic(t *testing.T) {
	rec := stats.Open(t, "C15")
	var incomplete, total atomic.Int64
	defer func() {
		if n, k := incomplete.Load(), total.Load(); n*3 > k {
			t.Fatalf("harness: in %d of %d runs the key generation did not complete", n, k)
		}
	}()
	rapid.Check(t, func(rt *rapid.T) {
		total.Add(1)
		scheme := rapid.SampledFrom(fx.SchemeNames).Draw(rt, "scheme")
		seed := rapid.Uint64Range(1, 1<<32).Draw(rt, "keyseed")
		n := rapid.IntRange(2, 4).Draw(rt, "n")
		thr := rapid.IntRange(n/2+1, n).Draw(rt, "t")
		doReshare := rapid.Bool().Draw(rt, "reshare")
		stop := Watchdog("c15", 250*time.Second)
		defer stop()
		bus := NewBus()
		bus.KeepRaw = true
		defer bus.CloseAll()
		sch := fx.Scheme(scheme)
		var nodes []*Node
		for i := 0; i < n; i++ {
			nd, err := bus.AddNode(fx.Pair(seed, fmt.Sprintf("c15-%d", i), fmt.Sprintf("127.0.0.1:%d", 36000+i), sch), "c15", true)
			if err != nil {
				rt.Fatalf("node: %v", err)
			}
			nodes = append(nodes, nd)
		}
		// hostile twins: before every gossip packet reaches its receiver, the harness (as a remote party) sends the same receiver
		// copies that must be refused -- signature bit-flipped, claimed sender swapped -- and keeps the error text the receiver
		// returns: an answer to a remote caller like any other
		type refusal struct{ kind, to, text string }
		var refMu sync.Mutex
		var refusals []refusal
		bus.Intercept = func(m *Msg, p *pdkg.GossipPacket) *pdkg.GossipPacket {
			target := bus.Node(m.To)
			if target == nil || target.Proc == nil || p.GetMetadata() == nil {
				return p
			}
			for _, variant := range []string{"signature-flipped", "sender-swapped"} {
				twin := proto.Clone(p).(*pdkg.GossipPacket)
				if variant == "signature-flipped" {
					twin.Metadata.Signature = flip(twin.Metadata.Signature)
				} else {
					twin.Metadata.Address = m.To
				}
				if _, err := bus.safePacket(target.Proc, twin); err != nil {
					refMu.Lock()
					refusals = append(refusals, refusal{m.Kind + "/" + variant, m.To, err.Error()})
					refMu.Unlock()
				}
			}
			return p
		}
		desc := fmt.Sprintf("%s n=%d t=%d reshare=%v seed=%d", scheme, n, thr, doReshare, seed)
		fail := func(key, detail string) {
			rec.Violation(rt, key, detail+" || case: "+desc, map[string]any{"case": desc})
		}
		if err := nodes[0].Initial(scheme, thr, 30, 1, time.Now().Add(-200*time.Second), time.Now().Add(60*time.Second), partsOf(nodes)); err != nil {
			rt.Fatalf("harness: initial: %v", err)
		}
		for _, nd := range nodes[1:] {
			nd := nd
			if err := waitFor(3*time.Second, func() error { return nd.Join(nil) }); err != nil {
				rt.Fatalf("harness: join: %v", err)
			}
		}
		if err := nodes[0].Execute(); err != nil {
			rt.Fatalf("harness: execute: %v", err)
		}
		if fin := WaitFinished(nodes, 1, 40*time.Second); len(fin) != n {
			// a starved machine can make a real-time DKG miss its phases: inconclusive, unless it happens in most runs
			incomplete.Add(1)
			rec.Inconclusive(desc)
			rec.Case(desc, false, "dkg-incomplete")
			return
		}
		secrets := func() []*secretscan.Secret {
			var out []*secretscan.Secret
			for i, nd := range nodes {
				kb, _ := nd.Pair.Key.MarshalBinary()
				out = append(out, secretscan.New(fmt.Sprintf("long-term key of node %d", i), kb, nd.Pair.Key.String()))
				if f, _ := nd.Finished(); f != nil && f.KeyShare != nil {
					sb, _ := f.KeyShare.Share.V.MarshalBinary()
					out = append(out, secretscan.New(fmt.Sprintf("epoch-%d share of node %d", f.Epoch, i), sb, f.KeyShare.Share.V.String()))
				}
			}
			return out
		}
		all := secrets()
		if doReshare {
			gf := func() []byte { f, _ := nodes[0].Finished(); return GroupTOML(f.FinalGroup) }()
			_ = gf
			if err := nodes[0].Reshare(thr, 1, time.Now().Add(60*time.Second), nil, partsOf(nodes), nil); err != nil {
				rt.Fatalf("harness: reshare: %v", err)
			}
			for _, nd := range nodes[1:] {
				if err := waitFor(3*time.Second, nd.Accept); err != nil {
					rt.Fatalf("harness: accept: %v", err)
				}
			}
			if err := nodes[0].Execute(); err != nil {
				rt.Fatalf("harness: execute 2: %v", err)
			}
			if fin := WaitFinished(nodes, 2, 40*time.Second); len(fin) != n {
				incomplete.Add(1)
				rec.Inconclusive(desc)
				rec.Case(desc, false, "dkg-incomplete")
				return
			}
			all = append(all, secrets()...)
		}
		scanned := 0
		kinds := map[string]int{}
		bus.mu.Lock()
		tap := append([]*Msg(nil), bus.Tap...)
		bus.mu.Unlock()
		for _, m := range tap {
			scanned++
			kinds[m.Kind]++
			if who := secretscan.Find(m.Raw, all); who != "" {
				fail("C15/secret-on-the-wire", fmt.Sprintf("a %s message from %s to %s contains the %s", m.Kind, m.From, m.To, who))
			}
		}
		// error texts returned to remote callers: for the protocol's own messages (as recorded on the bus) and for the hostile twins
		for _, m := range tap {
			if m.Err != "" {
				scanned++
				kinds["error-answer"]++
				if who := secretscan.Find([]byte(m.Err), all); who != "" {
					fail("C15/secret-in-response", fmt.Sprintf("the error answer of %s to a %s message contains the %s: %s", m.To, m.Kind, who, trunc300(m.Err)))
				}
			}
		}
		refMu.Lock()
		for _, r := range refusals {
			scanned++
			kinds["refusal-of-forged-packet"]++
			if who := secretscan.Find([]byte(r.text), all); who != "" {
				fail("C15/secret-in-response", fmt.Sprintf("the answer of %s refusing a forged packet (%s) contains the %s: %s", r.to, r.kind, who, trunc300(r.text)))
			}
		}
		refMu.Unlock()
		// operator commands that are refused: their error text goes to the control client and the log
		for i, nd := range nodes {
			for name, f := range map[string]func() error{"accept": nd.Accept, "execute": nd.Execute, "abort": nd.Abort, "join": func() error { return nd.Join(nil) }} {
				if err := f(); err != nil {
					scanned++
					kinds["refused-command"]++
					if who := secretscan.Find([]byte(err.Error()), all); who != "" {
						fail("C15/secret-in-response", fmt.Sprintf("the error of command %s on node %d contains the %s", name, i, who))
					}
				}
			}
		}
		for i, nd := range nodes {
			st, err := nd.Proc.DKGStatus(context.Background(), &pdkg.DKGStatusRequest{BeaconID: "c15"})
			if err == nil {
				b, _ := proto.Marshal(st)
				scanned++
				kinds["dkg-status"]++
				if who := secretscan.Find(b, all); who != "" {
					fail("C15/secret-in-response", fmt.Sprintf("the DKG status answer of node %d contains the %s", i, who))
				}
			}
			for _, line := range nd.Log.Root().Lines() {
				scanned++
				kinds["log-line"]++
				if who := secretscan.Find([]byte(line), all); who != "" {
					fail("C15/secret-in-log", fmt.Sprintf("a log line of node %d contains the %s: %s", i, who, trunc300(line)))
				}
			}
		}
		// positive control: the scanner finds each node's share in that node's own dkg.db (so encodings and scanner work)
		for i, nd := range nodes {
			data, err := os.ReadFile(filepath.Join(nd.Dir, "dkg.db"))
			if err != nil {
				rt.Fatalf("harness: read dkg.db: %v", err)
			}
			who := secretscan.Find(data, all)
			if !strings.Contains(who, "share") {
				rt.Fatalf("harness: positive control failed: no share found in dkg.db of node %d (found %q)", i, who)
			}
		}
		rec.LabelN("artefacts-scanned", int64(scanned))
		for k, v := range kinds {
			rec.LabelN("scanned/"+k, int64(v))
		}
		rec.Case(desc, kinds["dkg:deal"] > 0, "dkg-traffic", fmt.Sprintf("reshare=%v", doReshare))
	})
}
