package dkgnet

import (
	"context"
	"fmt"
	"strings"
	"testing"
	"time"

	"github.com/drand/drand/v2/internal/dkg"
	pdkg "github.com/drand/drand/v2/protobuf/dkg"
	pdrand "github.com/drand/drand/v2/protobuf/drand"
	"github.com/drand/drand/v2/verifharness/fx"
	"github.com/drand/drand/v2/verifharness/protofill"
	"github.com/drand/drand/v2/verifharness/stats"
	kdkg "github.com/drand/kyber/share/dkg"
	"github.com/drand/kyber/sign/schnorr"
	"pgregory.net/rapid"
)

// within runs f and reports whether it returned within d.
func within(d time.Duration, f func()) bool {
	done := make(chan struct{})
	go func() {
		defer func() { _ = recover() }()
		f()
		close(done)
	}()
	select {
	case <-done:
		return true
	case <-time.After(d):
		// not a verdict yet under load: re-examine with a long wait
		select {
		case <-done:
			return true
		case <-time.After(4 * d):
			return false
		}
	}
}

// memberBundle builds a DKG bundle that carries a VALID signature of group member `signer` (any member can make as many distinct
// ones as it likes): kind 0 response, 1 deal (reshare/first: dealer), 2 justification.
func memberBundle(n *Node, idx uint32, kind int, salt int, beaconID string) *pdkg.DKGPacket {
	suite := n.Pair.Scheme().KeyGroup.(kdkg.Suite)
	auth := schnorr.NewScheme(suite)
	session := fx.Bytes(uint64(salt)+1, "session", 32)
	md := &pdrand.Metadata{BeaconID: beaconID}
	switch kind {
	case 1:
		b := &kdkg.DealBundle{DealerIndex: idx, Deals: []kdkg.Deal{{ShareIndex: uint32(salt % 7), EncryptedShare: fx.Bytes(uint64(salt), "deal", 40)}}, Public: nil, SessionID: session}
		b.Public = append(b.Public, n.Pair.Public.Key)
		sig, _ := auth.Sign(n.Pair.Key, b.Hash())
		kb, _ := n.Pair.Public.Key.MarshalBinary()
		return &pdkg.DKGPacket{Dkg: &pdkg.Packet{Metadata: md, Bundle: &pdkg.Packet_Deal{Deal: &pdkg.DealBundle{DealerIndex: idx, Commits: [][]byte{kb},
			Deals: []*pdkg.Deal{{ShareIndex: b.Deals[0].ShareIndex, EncryptedShare: b.Deals[0].EncryptedShare}}, SessionId: session, Signature: sig}}}}
	case 2:
		sc := suite.Scalar().Pick(fx.Stream(uint64(salt), "just"))
		b := &kdkg.JustificationBundle{DealerIndex: idx, Justifications: []kdkg.Justification{{ShareIndex: uint32(salt % 7), Share: sc}}, SessionID: session}
		sig, _ := auth.Sign(n.Pair.Key, b.Hash())
		sb, _ := sc.MarshalBinary()
		return &pdkg.DKGPacket{Dkg: &pdkg.Packet{Metadata: md, Bundle: &pdkg.Packet_Justification{Justification: &pdkg.JustificationBundle{DealerIndex: idx,
			Justifications: []*pdkg.Justification{{ShareIndex: uint32(salt % 7), Share: sb}}, SessionId: session, Signature: sig}}}}
	default:
		b := &kdkg.ResponseBundle{ShareIndex: idx, Responses: []kdkg.Response{{DealerIndex: uint32(salt % 7), Status: salt%2 == 0}}, SessionID: session}
		sig, _ := auth.Sign(n.Pair.Key, b.Hash())
		return &pdkg.DKGPacket{Dkg: &pdkg.Packet{Metadata: md, Bundle: &pdkg.Packet_Response{Response: &pdkg.ResponseBundle{ShareIndex: idx,
			Responses: []*pdkg.Response{{DealerIndex: uint32(salt % 7), Status: salt%2 == 0}}, SessionId: session, Signature: sig}}}}
	}
}

// TestC14DKGService: generated gossip / broadcast packets against real dkg.Process objects in several states, with the same
// containment the daemon's gRPC interceptor provides; afterwards the process must still answer and shut down.
func TestC14DKGService(t *testing.T) {
	rec := stats.Open(t, "C14")
	rapid.Check(t, func(rt *rapid.T) {
		scheme := rapid.SampledFrom(fx.SchemeNames).Draw(rt, "scheme")
		seed := rapid.Uint64Range(1, 1<<32).Draw(rt, "keyseed")
		state := rapid.SampledFrom([]string{"fresh", "complete", "mid-proposal", "executed"}).Draw(rt, "state")
		stop := Watchdog("c14dkg", 200*time.Second)
		defer stop()
		bus := NewBus()
		defer func() {
			// a wedged process cannot be closed: bounded tear-down
			within(3*time.Second, bus.CloseAll)
		}()
		sch := fx.Scheme(scheme)
		var nodes []*Node
		var victim *Node
		var idxOf = map[string]uint32{}
		switch state {
		case "fresh":
			for i := 0; i < 3; i++ {
				n, err := bus.AddNode(fx.Pair(seed, fmt.Sprintf("c14-%d", i), fmt.Sprintf("127.0.0.1:%d", 35000+i), sch), "c14", false)
				if err != nil {
					rt.Fatalf("node: %v", err)
				}
				nodes = append(nodes, n)
			}
		default:
			prev := fx.NewNet(seed, fx.Opts{Scheme: scheme, N: 3, T: 2, Period: 30 * time.Second, Catchup: time.Second, Genesis: time.Now().Add(-1000 * time.Second).Unix(), BeaconID: "c14", BasePort: 35000})
			ns, err := FastForward(bus, prev, 1, "c14", false)
			if err != nil {
				rt.Fatalf("ff: %v", err)
			}
			nodes = ns
			if state == "mid-proposal" || state == "executed" {
				if err := nodes[0].Reshare(2, 1, time.Now().Add(60*time.Second), nil, partsOf(nodes), nil); err != nil {
					rt.Fatalf("harness: reshare: %v", err)
				}
				time.Sleep(30 * time.Millisecond)
			}
			if state == "executed" {
				for _, n := range nodes[1:] {
					if err := waitFor(3*time.Second, n.Accept); err != nil {
						rt.Fatalf("harness: accept: %v", err)
					}
				}
				if err := nodes[0].Execute(); err != nil {
					rt.Fatalf("harness: execute: %v", err)
				}
				if fin := WaitFinished(nodes, 2, 40*time.Second); len(fin) != len(nodes) {
					rt.Fatalf("harness: execution did not complete (%d/%d)", len(fin), len(nodes))
				}
				// indices of the members in the finished group (rank of key)
				for k, r := range rankOf(partsOf(nodes)) {
					for _, n := range nodes {
						if string(n.Part.Key) == k {
							idxOf[n.Addr] = r
						}
					}
				}
			}
		}
		victim = nodes[0]
		attacker := nodes[len(nodes)-1]
		var hist []string
		fail := func(key, detail string) {
			rec.Violation(rt, key, fmt.Sprintf("%s || state=%s scheme=%s requests: %s", detail, state, scheme, strings.Join(hist, " ; ")), map[string]any{"state": state, "requests": hist})
		}
		fc := &protofill.Ctx{IDs: []string{"c14", "c14", "default"}, Head: 3}
		kb, _ := attacker.Pair.Public.Key.MarshalBinary()
		fc.Valid = [][]byte{kb, attacker.Pair.Public.Signature}
		nreq := rapid.IntRange(1, 6).Draw(rt, "requests")
		for i := 0; i < nreq; i++ {
			kind := rapid.SampledFrom([]string{"packet", "broadcast", "member-bundle-flood"}).Draw(rt, "kind")
			switch kind {
			case "packet":
				p := &pdkg.GossipPacket{}
				fc.Full = rapid.Bool().Draw(rt, "complete")
				protofill.Fill(rt, p.ProtoReflect(), fc, 0, "GossipPacket")
				hist = append(hist, trunc300(fmt.Sprintf("Packet %v", p)))
				if !within(3*time.Second, func() { _, _ = bus.safePacket(victim.Proc, p) }) {
					fail("C14/request-not-answered", "a gossip packet was not answered in bounded time")
					return
				}
			case "broadcast":
				p := &pdkg.DKGPacket{}
				fc.Full = rapid.Bool().Draw(rt, "complete")
				protofill.Fill(rt, p.ProtoReflect(), fc, 0, "DKGPacket")
				hist = append(hist, trunc300(fmt.Sprintf("BroadcastDKG %v", p)))
				if !within(3*time.Second, func() { _, _ = bus.safeBroadcast(victim.Proc, p) }) {
					fail("C14/request-not-answered", "a DKG broadcast packet was not answered in bounded time")
					return
				}
			default:
				// a group member sends many DISTINCT bundles that carry its valid signature
				if state != "executed" {
					continue
				}
				bk := rapid.IntRange(0, 2).Draw(rt, "bundleKind")
				count := rapid.IntRange(1, 14).Draw(rt, "count")
				hist = append(hist, fmt.Sprintf("member %s sends %d distinct validly signed bundles of kind %d", attacker.Addr, count, bk))
				for j := 0; j < count; j++ {
					p := memberBundle(attacker, idxOf[attacker.Addr], bk, i*100+j, "c14")
					if !within(3*time.Second, func() { _, _ = bus.safeBroadcast(victim.Proc, p) }) {
						fail("C14/broadcast-wedged-by-member-bundles", fmt.Sprintf("the %d-th distinct bundle signed by a group member was never answered: the broadcast lock is held", j+1))
						return
					}
				}
			}
		}
		// probes: the process still answers on both entry points and can be shut down
		if !within(3*time.Second, func() { _, _ = victim.Proc.DKGStatus(context.Background(), &pdkg.DKGStatusRequest{BeaconID: "c14"}) }) {
			fail("C14/dkg-service-wedged", "DKGStatus no longer answers")
			return
		}
		probe := &pdkg.GossipPacket{Metadata: &pdkg.GossipMetadata{BeaconID: "c14", Address: attacker.Addr, Signature: []byte{1, 2, 3, 4, 5, 6}}, Packet: &pdkg.GossipPacket_Abort{Abort: &pdkg.AbortDKG{Reason: "probe"}}}
		if !within(3*time.Second, func() { _, _ = bus.safePacket(victim.Proc, probe) }) {
			fail("C14/dkg-service-wedged", "a gossip packet is no longer answered after the requests (process lock held)")
			return
		}
		if !within(3*time.Second, func() {
			_, _ = bus.safeBroadcast(victim.Proc, memberBundle(attacker, idxOf[attacker.Addr], 0, 9999, "c14"))
		}) {
			fail("C14/dkg-service-wedged", "a DKG broadcast packet is no longer answered after the requests (broadcast lock held)")
			return
		}
		if !within(4*time.Second, func() { _ = victim.Abort() }) {
			fail("C14/dkg-service-wedged", "an operator command is no longer answered after the requests")
			return
		}
		closed := within(5*time.Second, func() {
			bus.mu.Lock()
			p := victim.Proc
			victim.Proc = nil
			bus.mu.Unlock()
			if p != nil {
				p.Close()
			}
		})
		if !closed {
			fail("C14/shutdown-wedged", "Process.Close() does not return after the requests")
			return
		}
		if f := victim.Log.Root().FatalEvents(); len(f) > 0 {
			fail("C14/fatal-log", f[0])
		}
		if len(bus.Panics) > 0 {
			rec.LabelN("handler-panics-contained", int64(len(bus.Panics)))
		}
		rec.Case(fmt.Sprintf("state=%s scheme=%s :: %s", state, scheme, strings.Join(hist, " ; ")), len(hist) > 0, "dkg-service", "state/"+state)
	})
}

func trunc300(s string) string {
	if len(s) > 300 {
		return s[:300]
	}
	return s
}

var _ = dkg.Complete
