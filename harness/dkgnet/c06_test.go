package dkgnet

import (
	"sync/atomic"
	"bytes"
	"fmt"
	"sort"
	"strings"
	"sync"
	"testing"
	"time"

	"github.com/drand/drand/v2/common/chain"
	"github.com/drand/drand/v2/common/key"
	"github.com/drand/drand/v2/internal/dkg"
	pdkg "github.com/drand/drand/v2/protobuf/dkg"
	"github.com/drand/drand/v2/verifharness/fx"
	"github.com/drand/drand/v2/verifharness/stats"
	"github.com/drand/kyber/share"
	"pgregory.net/rapid"
)

type viol struct{ key, detail string }

func partsOf(nodes []*Node) []*pdkg.Participant {
	out := make([]*pdkg.Participant, len(nodes))
	for i, n := range nodes {
		out[i] = n.Part
	}
	return out
}

// rankOf returns the rank of every participant key in byte order: the canonical DKG index.
func rankOf(parts []*pdkg.Participant) map[string]uint32 {
	ks := make([]string, len(parts))
	for i, p := range parts {
		ks[i] = string(p.Key)
	}
	sort.Strings(ks)
	out := map[string]uint32{}
	for i, k := range ks {
		out[k] = uint32(i)
	}
	return out
}

// groupFieldDiff compares two final groups field by field.
func groupFieldDiff(a, b *key.Group) string {
	var d []string
	if a.Threshold != b.Threshold {
		d = append(d, fmt.Sprintf("threshold %d != %d", a.Threshold, b.Threshold))
	}
	if a.Period != b.Period {
		d = append(d, "period differs")
	}
	if a.CatchupPeriod != b.CatchupPeriod {
		d = append(d, "catch-up period differs")
	}
	if a.Scheme.Name != b.Scheme.Name {
		d = append(d, "scheme differs")
	}
	if a.ID != b.ID {
		d = append(d, "beacon id differs")
	}
	if a.GenesisTime != b.GenesisTime {
		d = append(d, fmt.Sprintf("genesis time %d != %d", a.GenesisTime, b.GenesisTime))
	}
	if !bytes.Equal(a.GenesisSeed, b.GenesisSeed) {
		d = append(d, fmt.Sprintf("genesis seed %x != %x", a.GenesisSeed, b.GenesisSeed))
	}
	if a.TransitionTime != b.TransitionTime {
		d = append(d, fmt.Sprintf("transition time %d != %d", a.TransitionTime, b.TransitionTime))
	}
	if len(a.Nodes) != len(b.Nodes) {
		d = append(d, fmt.Sprintf("member count %d != %d", len(a.Nodes), len(b.Nodes)))
	}
	am := map[uint32]*key.Node{}
	for _, n := range a.Nodes {
		am[n.Index] = n
	}
	for _, n := range b.Nodes {
		o, ok := am[n.Index]
		if !ok {
			d = append(d, fmt.Sprintf("index %d only in one group", n.Index))
			continue
		}
		if o.Addr != n.Addr || !o.Key.Equal(n.Key) {
			d = append(d, fmt.Sprintf("member at index %d differs (%s vs %s)", n.Index, o.Addr, n.Addr))
		}
	}
	if (a.PublicKey == nil) != (b.PublicKey == nil) {
		d = append(d, "distributed key presence differs")
	} else if a.PublicKey != nil && !a.PublicKey.Equal(b.PublicKey) {
		d = append(d, "distributed public key differs")
	}
	return strings.Join(d, "; ")
}

// checkOutcome applies the C06 oracle to the nodes that finished `epoch`.
// prev is the previous epoch (nil for a first DKG); expectT the proposed threshold.
func checkOutcome(finishers []*Node, epoch uint32, allParts []*pdkg.Participant, prev *fx.Net, expectT int, seed uint64) *viol {
	if len(finishers) == 0 {
		return nil
	}
	type fin struct {
		n *Node
		s *dkg.DBState
	}
	var fs []fin
	for _, n := range finishers {
		s, err := n.Finished()
		if err != nil || s == nil {
			return &viol{"C06/finished-record-unreadable", fmt.Sprintf("%s: %v", n.Addr, err)}
		}
		if s.FinalGroup == nil || s.KeyShare == nil {
			return &viol{"C06/finished-without-group-or-share", n.Addr}
		}
		fs = append(fs, fin{n, s})
	}
	ref := fs[0].s.FinalGroup
	refHash := append([]byte(nil), ref.Hash()...)
	for _, f := range fs[1:] {
		if d := groupFieldDiff(ref, f.s.FinalGroup); d != "" {
			return &viol{"C06/groups-differ", fmt.Sprintf("%s and %s finished epoch %d with different groups: %s", fs[0].n.Addr, f.n.Addr, epoch, d)}
		}
		if !bytes.Equal(refHash, f.s.FinalGroup.Hash()) {
			return &viol{"C06/group-hashes-differ", fmt.Sprintf("%s and %s: group hash differs", fs[0].n.Addr, f.n.Addr)}
		}
	}
	if ref.Threshold != expectT {
		return &viol{"C06/threshold-not-as-proposed", fmt.Sprintf("final group threshold %d, proposed %d", ref.Threshold, expectT)}
	}
	if len(ref.PublicKey.Coefficients) != ref.Threshold {
		return &viol{"C06/public-polynomial-degree", fmt.Sprintf("%d coefficients for threshold %d", len(ref.PublicKey.Coefficients), ref.Threshold)}
	}
	sch := ref.Scheme
	pub := share.NewPubPoly(sch.KeyGroup, sch.KeyGroup.Point().Base(), ref.PublicKey.Coefficients)
	ranks := rankOf(allParts)
	var shares []*share.PriShare
	for _, f := range fs {
		sh := f.s.KeyShare
		node := ref.Node(uint32(sh.Share.I))
		if node == nil || node.Addr != f.n.Addr || !node.Key.Equal(f.n.Pair.Public.Key) {
			return &viol{"C06/share-index-not-own", fmt.Sprintf("%s holds a share with index %d, which the group assigns to %v", f.n.Addr, sh.Share.I, node)}
		}
		// harness arithmetic: g^share == pubpoly(index)
		want := pub.Eval(sh.Share.I).V
		got := sch.KeyGroup.Point().Mul(sh.Share.V, nil)
		if !want.Equal(got) {
			return &viol{"C06/share-not-on-polynomial", fmt.Sprintf("%s: share at index %d does not lie on the group's public polynomial", f.n.Addr, sh.Share.I)}
		}
		for i, c := range sh.Commits {
			if !c.Equal(ref.PublicKey.Coefficients[i]) {
				return &viol{"C06/share-commitments-differ", fmt.Sprintf("%s: commitment %d differs from the group's distributed key", f.n.Addr, i)}
			}
		}
		// canonical index = rank of the public key (independent of the order in which participants were listed)
		if r, ok := ranks[string(f.n.Part.Key)]; ok && r != uint32(sh.Share.I) {
			return &viol{"C06/index-depends-on-listing", fmt.Sprintf("%s got index %d, its key has rank %d among the participants", f.n.Addr, sh.Share.I, r)}
		}
		shares = append(shares, sh.Share)
	}
	// any threshold of shares signs under the group key; threshold-1 does not
	if len(shares) >= ref.Threshold {
		msg := fx.Bytes(seed, "c06msg", 32)
		for trial := 0; trial < 6; trial++ {
			perm := permFrom(seed+uint64(trial), len(shares))
			var sigs [][]byte
			for _, i := range perm[:ref.Threshold] {
				s, err := sch.ThresholdScheme.Sign(shares[i], msg)
				if err != nil {
					return &viol{"C06/share-cannot-sign", err.Error()}
				}
				sigs = append(sigs, s)
			}
			full, err := sch.ThresholdScheme.Recover(pub, msg, sigs, ref.Threshold, len(ref.Nodes))
			if err != nil {
				return &viol{"C06/threshold-of-shares-does-not-recover", err.Error()}
			}
			if err := sch.ThresholdScheme.VerifyRecovered(ref.PublicKey.Key(), msg, full); err != nil {
				return &viol{"C06/threshold-signature-invalid", fmt.Sprintf("signature recovered from %d shares does not verify under the group key: %v", ref.Threshold, err)}
			}
			if ref.Threshold >= 2 {
				if under, err := sch.ThresholdScheme.Recover(pub, msg, sigs[:ref.Threshold-1], ref.Threshold-1, len(ref.Nodes)); err == nil {
					if sch.ThresholdScheme.VerifyRecovered(ref.PublicKey.Key(), msg, under) == nil {
						return &viol{"C06/below-threshold-signs", "t-1 shares produced a valid group signature"}
					}
				}
			}
		}
	}
	if prev == nil {
		// epoch 1: genesis seed = hash of the first group computed without a seed; transition time = genesis
		g := *ref
		g.GenesisSeed = nil
		cp := g
		if want := cp.Hash(); !bytes.Equal(want, ref.GenesisSeed) {
			return &viol{"C06/genesis-seed-not-group-hash", fmt.Sprintf("genesis seed %x is not the hash of the first group %x", ref.GenesisSeed, want)}
		}
	} else {
		if !ref.PublicKey.Key().Equal(prev.PublicKey()) {
			return &viol{"C06/reshare-changed-public-key", "coefficient 0 of the new distributed key differs from the previous one"}
		}
		if !bytes.Equal(chain.NewChainInfo(ref).Hash(), chain.NewChainInfo(prev.Group).Hash()) {
			return &viol{"C06/reshare-changed-chain-hash", "chain hash changed across the reshare"}
		}
	}
	return nil
}

// transitionSkewOnly recognises the listed finding: the groups differ in nothing but the transition time, and by a few periods
// only (each node derives it from its own clock at completion). A transition time that is off by more (e.g. left at the
// genesis time) is another defect.
func transitionSkewOnly(detail string, periodS uint32) bool {
	if !strings.Contains(detail, "transition time") || strings.Contains(detail, ";") {
		return false
	}
	var a, b int64
	i := strings.Index(detail, "transition time ")
	if _, err := fmt.Sscanf(detail[i:], "transition time %d != %d", &a, &b); err != nil {
		return false
	}
	d := a - b
	if d < 0 {
		d = -d
	}
	return d <= 3*int64(periodS)
}

func permFrom(seed uint64, n int) []int {
	b := fx.Bytes(seed, "perm", n*2+2)
	p := make([]int, n)
	for i := range p {
		p[i] = i
	}
	for i := n - 1; i > 0; i-- {
		j := int(b[2*i])<<8 | int(b[2*i+1])
		j %= i + 1
		p[i], p[j] = p[j], p[i]
	}
	return p
}

type delivery struct {
	MaxDelayMs int
	Dup        bool
	FailOnce   bool
	SlowNode   int // -1 none
	SlowMs     int
}

func (d delivery) String() string {
	return fmt.Sprintf("delay<=%dms dup=%v failOnce=%v slow=%d/%dms", d.MaxDelayMs, d.Dup, d.FailOnce, d.SlowNode, d.SlowMs)
}

func (d delivery) perturbing() bool {
	return d.MaxDelayMs > 0 || d.Dup || d.FailOnce || d.SlowNode >= 0
}

// spare = number of participants the protocol can lose (n - t): with spare >= 1 the slow node may be slow enough to miss the
// deal phase altogether (its bundles arrive 5 s late with 2 s phases), so that the others complete without it.
func genDelivery(rt *rapid.T, n int, spare int) delivery {
	d := delivery{SlowNode: -1}
	if rapid.Bool().Draw(rt, "delays") {
		d.MaxDelayMs = rapid.SampledFrom([]int{5, 40, 150}).Draw(rt, "maxDelay")
	}
	d.Dup = rapid.IntRange(0, 3).Draw(rt, "dup") == 0
	d.FailOnce = rapid.IntRange(0, 3).Draw(rt, "failOnce") == 0
	switch slow := rapid.IntRange(0, 3).Draw(rt, "slow"); {
	case n >= 2 && slow == 0:
		d.SlowNode = rapid.IntRange(0, n-1).Draw(rt, "slowNode")
		d.SlowMs = rapid.SampledFrom([]int{100, 400, 900}).Draw(rt, "slowMs")
	case n >= 3 && spare >= 1 && slow == 1:
		d.SlowNode = rapid.IntRange(0, n-1).Draw(rt, "slowNode")
		d.SlowMs = 5000
	}
	return d
}

func (d delivery) policy(seed uint64, addrs []string) Policy {
	var mu sync.Mutex
	ctr := uint64(0)
	next := func() uint64 {
		mu.Lock()
		defer mu.Unlock()
		ctr++
		b := fx.Bytes(seed, fmt.Sprintf("pol%d", ctr), 2)
		return uint64(b[0])<<8 | uint64(b[1])
	}
	slow := ""
	if d.SlowNode >= 0 && d.SlowNode < len(addrs) {
		slow = addrs[d.SlowNode]
	}
	return Policy{
		Delay: func(m *Msg) time.Duration {
			var t time.Duration
			if d.MaxDelayMs > 0 {
				t = time.Duration(next()%uint64(d.MaxDelayMs+1)) * time.Millisecond
			}
			if slow != "" && d.SlowMs >= 5000 {
				// too slow for a phase: only what the node contributes to the protocol is late (it still hears the others)
				if m.From == slow && strings.HasPrefix(m.Kind, "dkg:") {
					t += time.Duration(d.SlowMs) * time.Millisecond
				}
			} else if slow != "" && (m.From == slow || m.To == slow) {
				t += time.Duration(d.SlowMs) * time.Millisecond
			}
			return t
		},
		Dup: func(m *Msg) bool { return d.Dup && next()%3 == 0 },
		// only gossip (proposal/accept/execute...) is retried by its sender; DKG bundles are sent once and the stated quantifier
		// covers delays, reordering, duplicates and a slow node, not message loss: transient failures are limited to gossip
		FailOnce: func(m *Msg) bool { return d.FailOnce && strings.HasPrefix(m.Kind, "gossip:") && next()%4 == 0 },
	}
}

// TestC06FirstDKG: a key generation from scratch over generated (scheme, n, t, listing order, leader, delivery schedule).
func TestC06FirstDKG(t *testing.T) {
	rec := stats.Open(t, "C06")
	// The start of an execution is announced by the leader with a grace period; a node that hears of it later than that starts
	// its phases late. The slowest generated link (900 ms + 150 ms) must stay below the grace period, as it does with the
	// daemon's defaults (seconds), otherwise the schedule breaks the protocol's synchrony assumption by construction.
	DKGConf.KickoffGracePeriod = time.Duration(stats.N("VERIF_C06_GRACE_MS", 1300)) * time.Millisecond
	var nobody, total atomic.Int64
	defer func() {
		if n, k := nobody.Load(), total.Load(); n*3 > k {
			t.Fatalf("positive control: in %d of %d runs nobody completed (harness or liveness problem)", n, k)
		}
	}()
	rapid.Check(t, func(rt *rapid.T) {
		total.Add(1)
		n := rapid.IntRange(1, 7).Draw(rt, "n")
		thr := rapid.IntRange(n/2+1, n).Draw(rt, "t")
		scheme := rapid.SampledFrom(fx.SchemeNames).Draw(rt, "scheme")
		seed := rapid.Uint64Range(1, 1<<32).Draw(rt, "keyseed")
		leader := rapid.IntRange(0, n-1).Draw(rt, "leader")
		perm := make([]int, n)
		for i := range perm {
			perm[i] = i
		}
		for i := n - 1; i > 0; i-- {
			j := rapid.IntRange(0, i).Draw(rt, "swap")
			perm[i], perm[j] = perm[j], perm[i]
		}
		del := genDelivery(rt, n, n-thr)
		period := rapid.SampledFrom([]uint32{1, 3, 30}).Draw(rt, "period")
		desc := fmt.Sprintf("first-dkg %s n=%d t=%d leader=%d order=%v period=%ds %s", scheme, n, thr, leader, perm, period, del)

		wdStop := Watchdog("c06first", 150*time.Second)
		defer wdStop()
		bus := NewBus()
		defer bus.CloseAll()
		sch := fx.Scheme(scheme)
		var nodes []*Node
		var addrs []string
		for i := 0; i < n; i++ {
			nd, err := bus.AddNode(fx.Pair(seed, fmt.Sprintf("c06-%d", i), fmt.Sprintf("127.0.0.1:%d", 31000+i), sch), "c06", false)
			if err != nil {
				rt.Fatalf("node: %v", err)
			}
			nodes = append(nodes, nd)
			addrs = append(addrs, nd.Addr)
		}
		bus.Policy = del.policy(seed, addrs)
		bus.AsyncBundles = true
		listed := make([]*pdkg.Participant, n)
		for i, j := range perm {
			listed[i] = nodes[j].Part
		}
		// The DKG protocol is synchronous: what one node receives within a phase (2 s here) every node must receive within that
		// phase. The generated schedules stay within that bound (<= 1.05 s), but a starved machine can add seconds. A disagreement
		// seen in a run in which some bundle actually took longer than 60% of a phase is outside the protocol's assumption
		// and counts as inconclusive (the bundles of a node that is slow ON PURPOSE by 5 s are not counted).
		fail := func(v *viol) {
			except := ""
			if del.SlowMs >= 5000 && del.SlowNode >= 0 && del.SlowNode < len(addrs) {
				except = addrs[del.SlowNode]
			}
			if lat := bus.MaxBundleLatency(except); lat > 1200*time.Millisecond {
				rec.Inconclusive(desc)
				rec.Label("synchrony-exceeded-by-machine-load")
				return
			}
			rec.Violation(rt, v.key, v.detail+" || case: "+desc, map[string]any{"case": desc})
		}
		genesis := time.Now().Add(20 * time.Second)
		err := nodes[leader].Initial(scheme, thr, period, 1, genesis, time.Now().Add(50*time.Second), listed)
		if n == 1 {
			// a one-node network cannot gossip: it must be refused cleanly and leave the node usable
			if err == nil {
				if f := WaitFinished(nodes, 1, 100*time.Millisecond); len(f) == 1 {
					if v := checkOutcome(f, 1, partsOf(nodes), nil, thr, seed); v != nil {
						fail(v)
					}
				}
			}
			rec.Case(desc, false, "n=1", "scheme/"+scheme)
			return
		}
		if err != nil {
			rt.Fatalf("harness: proposal refused: %v (%s)", err, desc)
		}
		for i, nd := range nodes {
			if i == leader {
				continue
			}
			if err := waitFor(3*time.Second, func() error { return nd.Join(nil) }); err != nil {
				rt.Fatalf("harness: join refused: %v (%s)", err, desc)
			}
		}
		if err := nodes[leader].Execute(); err != nil {
			rt.Fatalf("harness: execute refused: %v (%s)", err, desc)
		}
		fin := WaitFinished(nodes, 1, 40*time.Second)
		if v := checkOutcome(fin, 1, partsOf(nodes), nil, thr, seed); v != nil {
			fail(v)
		}
		// positive control: without lost messages everybody finishes
		// a node that is too slow for a phase is legitimately excluded (it does not "complete"); the distribution is reported so that
		// a harness that never lets anybody finish is visible
		allFinished := len(fin) == n
		if len(fin) == 0 {
			// the protocol runs in real time (2 s phases): on an overloaded machine a run can miss its phases. A single such run is
			// inconclusive; the test fails as "could not run" when more than a third of its runs end like this.
			nobody.Add(1)
			rec.Inconclusive(desc)
			rec.Case(desc, false, "nobody-completed")
			return
		}
		identity := true
		for i, p := range perm {
			if i != p {
				identity = false
			}
		}
		labels := []string{"first-dkg", "scheme/" + scheme, fmt.Sprintf("n=%d", n), fmt.Sprintf("all-finished=%v", allFinished)}
		if del.perturbing() {
			labels = append(labels, "perturbed-delivery")
		}
		if del.SlowNode >= 0 {
			labels = append(labels, "slow-node")
		}
		if del.SlowMs >= 5000 {
			labels = append(labels, "slow-node-misses-deal-phase", fmt.Sprintf("misses-phase/finishers=%d-of-%d", len(fin), n))
		}
		rec.Case(desc, n >= 3 && (!identity || del.perturbing()), labels...)
	})
}

func waitFor(max time.Duration, f func() error) error {
	deadline := time.Now().Add(max)
	for {
		err := f()
		if err == nil || time.Now().After(deadline) {
			return err
		}
		time.Sleep(10 * time.Millisecond)
	}
}

// TestC06Reshare: a resharing on top of a completed epoch (written by the harness), over generated shapes.
func TestC06Reshare(t *testing.T) {
	rec := stats.Open(t, "C06")
	// The start of an execution is announced by the leader with a grace period; a node that hears of it later than that starts
	// its phases late. The slowest generated link (900 ms + 150 ms) must stay below the grace period, as it does with the
	// daemon's defaults (seconds), otherwise the schedule breaks the protocol's synchrony assumption by construction.
	DKGConf.KickoffGracePeriod = time.Duration(stats.N("VERIF_C06_GRACE_MS", 1300)) * time.Millisecond
	var nobody, total atomic.Int64
	defer func() {
		if n, k := nobody.Load(), total.Load(); n*3 > k {
			t.Fatalf("positive control: in %d of %d runs nobody completed (harness or liveness problem)", n, k)
		}
	}()
	rapid.Check(t, func(rt *rapid.T) {
		total.Add(1)
		n0 := rapid.IntRange(2, 6).Draw(rt, "n0")
		t0 := rapid.IntRange(n0/2+1, n0).Draw(rt, "t0")
		scheme := rapid.SampledFrom(fx.SchemeNames).Draw(rt, "scheme")
		seed := rapid.Uint64Range(1, 1<<32).Draw(rt, "keyseed")
		period := rapid.SampledFrom([]uint32{1, 3, 30}).Draw(rt, "period")
		knownTT := rec.KnownListed("C06/reshare-transition-time-differs")
		if knownTT && period < 30 && rapid.IntRange(0, 3).Draw(rt, "steerAway") > 0 {
			// listed finding: short periods make nodes complete on different sides of a round boundary; steer most cases away so the search continues behind it
			period = 30
			rec.Excluded()
		}
		// shape
		maxLeave := n0 - t0 // remaining must be >= previous threshold
		leave := rapid.IntRange(0, maxLeave).Draw(rt, "leave")
		add := rapid.IntRange(0, 3).Draw(rt, "add")
		n1 := n0 - leave + add
		if n1 > 7 {
			add -= n1 - 7
			n1 = 7
		}
		t1 := rapid.IntRange(n1/2+1, n1).Draw(rt, "t1")
		del := genDelivery(rt, n1, 0)
		genesis := time.Now().Add(-100 * time.Second).Unix()
		prev := fx.NewNet(seed, fx.Opts{Scheme: scheme, N: n0, T: t0, Period: time.Duration(period) * time.Second, Catchup: time.Second, Genesis: genesis, BeaconID: "c06", BasePort: 32000})
		wdStop := Watchdog("c06reshare", 150*time.Second)
		defer wdStop()
		bus := NewBus()
		defer bus.CloseAll()
		old, err := FastForward(bus, prev, 1, "c06", false)
		if err != nil {
			rt.Fatalf("fast-forward: %v", err)
		}
		// who leaves: drawn positions; leader is a remainer
		leaving := map[int]bool{}
		for len(leaving) < leave {
			leaving[rapid.IntRange(0, n0-1).Draw(rt, "leaver")] = true
		}
		var remaining, leavers, joiners []*Node
		for i, nd := range old {
			if leaving[i] {
				leavers = append(leavers, nd)
			} else {
				remaining = append(remaining, nd)
			}
		}
		sch := fx.Scheme(scheme)
		for j := 0; j < add; j++ {
			nd, err := bus.AddNode(fx.Pair(seed, fmt.Sprintf("c06-joiner-%d", j), fmt.Sprintf("127.0.0.1:%d", 32500+j), sch), "c06", false)
			if err != nil {
				rt.Fatalf("joiner: %v", err)
			}
			joiners = append(joiners, nd)
		}
		leader := remaining[rapid.IntRange(0, len(remaining)-1).Draw(rt, "leader")]
		desc := fmt.Sprintf("reshare %s n0=%d t0=%d leave=%d add=%d t1=%d period=%ds leader=%s %s", scheme, n0, t0, leave, add, t1, period, leader.Addr, del)
		WatchdogNote.Store(desc)
		var addrs []string
		for _, nd := range append(append([]*Node{}, remaining...), joiners...) {
			addrs = append(addrs, nd.Addr)
		}
		bus.Policy = del.policy(seed, addrs)
		bus.AsyncBundles = true
		fail := func(v *viol) bool {
			if lat := bus.MaxBundleLatency(""); lat > 1200*time.Millisecond && v.key != "C06/reshare-transition-time-differs" {
				rec.Inconclusive(desc)
				rec.Label("synchrony-exceeded-by-machine-load")
				return false
			}
			return rec.Violation(rt, v.key, v.detail+" || case: "+desc, map[string]any{"case": desc})
		}
		// listing order of each list is permuted
		shuffle := func(ns []*Node, label string) []*pdkg.Participant {
			ps := partsOf(ns)
			for i := len(ps) - 1; i > 0; i-- {
				j := rapid.IntRange(0, i).Draw(rt, label)
				ps[i], ps[j] = ps[j], ps[i]
			}
			return ps
		}
		if err := leader.Reshare(t1, 1, time.Now().Add(50*time.Second), shuffle(joiners, "pj"), shuffle(remaining, "pr"), shuffle(leavers, "pl")); err != nil {
			rt.Fatalf("harness: reshare proposal refused: %v (%s)", err, desc)
		}
		for _, nd := range remaining {
			if nd == leader {
				continue
			}
			if err := waitFor(3*time.Second, nd.Accept); err != nil {
				rt.Fatalf("harness: accept refused: %v (%s)", err, desc)
			}
		}
		gf := GroupTOML(prev.Group)
		for _, nd := range joiners {
			if err := waitFor(3*time.Second, func() error { return nd.Join(gf) }); err != nil {
				rt.Fatalf("harness: join refused: %v (%s)", err, desc)
			}
		}
		if err := leader.Execute(); err != nil {
			rt.Fatalf("harness: execute refused: %v (%s)", err, desc)
		}
		members := append(append([]*Node{}, remaining...), joiners...)
		fin := WaitFinished(members, 2, 45*time.Second)
		if v := checkOutcome(fin, 2, partsOf(members), prev, t1, seed); v != nil {
			if transitionSkewOnly(v.detail, period) {
				v.key = "C06/reshare-transition-time-differs"
			}
			fail(v)
		}
		if len(fin) == 0 {
			nobody.Add(1)
			rec.Inconclusive(desc)
			rec.Case(desc, false, "nobody-completed")
			return
		}
		// leavers keep their old completed record
		for _, nd := range leavers {
			f, err := nd.Finished()
			if err != nil || f == nil || f.Epoch != 1 {
				fail(&viol{"C06/leaver-lost-last-epoch", fmt.Sprintf("%s (leaving) has finished record %v / %v", nd.Addr, f, err)})
			}
		}
		labels := []string{"reshare", "scheme/" + scheme, fmt.Sprintf("all-finished=%v", len(fin) == len(members))}
		switch {
		case leave == 0 && add == 0:
			labels = append(labels, "shape/same-set")
		case leave > 0 && add > 0:
			labels = append(labels, "shape/replace")
		case add > 0:
			labels = append(labels, "shape/add")
		default:
			labels = append(labels, "shape/remove")
		}
		if t1 != t0 {
			labels = append(labels, "threshold-changed")
		}
		rec.Case(desc, true, labels...)
	})
}

// TestC06KnownFindingReplay tries (up to 4 times: the outcome depends on where completion falls relative to a round boundary)
// to reproduce the listed transition-time finding with its exact shape: period 1 s, one member 900 ms slow.
func TestC06KnownFindingReplay(t *testing.T) {
	rec := stats.Open(t, "C06")
	desc := "replay: reshare pedersen-bls-chained n0=4 t0=3 add=1 t1=3 period=1s slow=1/900ms"
	reproduced := false
	for attempt := 0; attempt < 4 && !reproduced; attempt++ {
		func() {
			stop := Watchdog("c06replay", 150*time.Second)
			defer stop()
			seed := uint64(100 + attempt)
			prev := fx.NewNet(seed, fx.Opts{Scheme: fx.SchemeNames[0], N: 4, T: 3, Period: time.Second, Catchup: time.Second, Genesis: time.Now().Add(-100 * time.Second).Unix(), BeaconID: "c06", BasePort: 32000})
			bus := NewBus()
			defer bus.CloseAll()
			old, err := FastForward(bus, prev, 1, "c06", false)
			if err != nil {
				t.Fatal(err)
			}
			j, err := bus.AddNode(fx.Pair(seed, "replay-joiner", "127.0.0.1:32500", prev.Scheme), "c06", false)
			if err != nil {
				t.Fatal(err)
			}
			members := append(append([]*Node{}, old...), j)
			var addrs []string
			for _, m := range members {
				addrs = append(addrs, m.Addr)
			}
			bus.Policy = delivery{SlowNode: 1, SlowMs: 900}.policy(seed, addrs)
			if err := old[0].Reshare(3, 1, time.Now().Add(50*time.Second), []*pdkg.Participant{j.Part}, partsOf(old), nil); err != nil {
				t.Fatalf("reshare: %v", err)
			}
			for _, m := range old[1:] {
				if err := waitFor(3*time.Second, m.Accept); err != nil {
					t.Fatalf("accept: %v", err)
				}
			}
			if err := waitFor(3*time.Second, func() error { return j.Join(GroupTOML(prev.Group)) }); err != nil {
				t.Fatalf("join: %v", err)
			}
			if err := old[0].Execute(); err != nil {
				t.Fatalf("execute: %v", err)
			}
			fin := WaitFinished(members, 2, 45*time.Second)
			if v := checkOutcome(fin, 2, partsOf(members), prev, 3, seed); v != nil {
				if transitionSkewOnly(v.detail, 1) {
					reproduced = true
					rec.Violation(t, "C06/reshare-transition-time-differs", v.detail+" || case: "+desc, nil)
				} else {
					rec.Violation(t, v.key, v.detail+" || case: "+desc, nil)
				}
			}
		}()
	}
	if !reproduced {
		t.Logf("listed finding did not reproduce in 4 attempts")
		rec.Label("known-finding-not-reproduced-this-run")
	}
	rec.Case(desc, true, "known-finding-replay")
	rec.Case(desc+" (fixed replay case)", true, "known-finding-replay")
}
