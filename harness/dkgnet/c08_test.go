package dkgnet

import (
	"bytes"
	"fmt"
	"strings"
	"testing"
	"time"

	"github.com/BurntSushi/toml"
	"google.golang.org/protobuf/proto"
	"google.golang.org/protobuf/types/known/timestamppb"

	"github.com/drand/drand/v2/internal/dkg"
	pdkg "github.com/drand/drand/v2/protobuf/dkg"
	"github.com/drand/drand/v2/verifharness/fx"
	"github.com/drand/drand/v2/verifharness/stats"
	"pgregory.net/rapid"
)

// legal is the harness's own statement of the protocol's transitions (from the state descriptions in the documentation of the
// states, written independently of the transition table in the code under test).
var legal = map[dkg.Status][]dkg.Status{
	dkg.Fresh:     {dkg.Proposing, dkg.Proposed},
	dkg.Proposing: {dkg.Executing, dkg.Aborted, dkg.TimedOut},
	dkg.Proposed:  {dkg.Accepted, dkg.Rejected, dkg.Joined, dkg.Left, dkg.Aborted, dkg.TimedOut},
	dkg.Accepted:  {dkg.Executing, dkg.Aborted, dkg.TimedOut},
	dkg.Rejected:  {dkg.Aborted, dkg.TimedOut},
	dkg.Joined:    {dkg.Executing, dkg.Aborted, dkg.TimedOut, dkg.Left},
	dkg.Executing: {dkg.Complete, dkg.Failed, dkg.TimedOut},
	dkg.Complete:  {dkg.Proposing, dkg.Proposed},
	dkg.Left:      {dkg.Proposed, dkg.Joined, dkg.Aborted},
	dkg.Aborted:   {dkg.Proposing, dkg.Proposed},
	dkg.TimedOut:  {dkg.Proposing, dkg.Proposed, dkg.Aborted},
	dkg.Failed:    {dkg.Proposing, dkg.Proposed, dkg.Left, dkg.Aborted},
}

// reachable reports whether b can be reached from a in at most k legal steps (an action that runs a whole execution passes
// through Executing between two observations).
func reachable(a, b dkg.Status, k int) bool {
	if k <= 0 {
		return false
	}
	if isLegal(a, b) {
		return true
	}
	for _, m := range legal[a] {
		if reachable(m, b, k-1) {
			return true
		}
	}
	return false
}

func isLegal(a, b dkg.Status) bool {
	for _, x := range legal[a] {
		if x == b {
			return true
		}
	}
	return false
}

type snap struct {
	cur, fin         *dkg.DBState
	curTOML, finTOML string
}

func takeSnap(n *Node) snap {
	var s snap
	s.cur, _ = n.Current()
	s.fin, _ = n.Finished()
	enc := func(x *dkg.DBState) string {
		if x == nil {
			return "<nil>"
		}
		var b bytes.Buffer
		_ = toml.NewEncoder(&b).Encode(x.TOML())
		return b.String()
	}
	s.curTOML, s.finTOML = enc(s.cur), enc(s.fin)
	return s
}

// c08World: five identities; optionally the first three already form a completed epoch 1.
type c08World struct {
	bus    *Bus
	nodes  []*Node
	prev   *fx.Net
	scheme string
	seed   uint64
	hist   []string
	// model
	completedEpoch uint32
	members        map[string]bool // addresses of the last completed group
	attemptOpen    bool
	attemptEpoch   uint32
	attemptLeader  *Node
	lastTerminal   string
	dead           bool // the model can no longer follow (partial completion): only idle steps from here
	everLeft       map[string]bool
}

func (w *c08World) note(f string, a ...any) { w.hist = append(w.hist, fmt.Sprintf(f, a...)) }

// quiesce waits until no call is being delivered and nothing new has appeared on the bus for 25 ms (a gossip goroutine that
// was started by the last action but not scheduled yet must not be attributed to the next action), at most 3 s.
func (w *c08World) quiesce() {
	last, stable := -1, 0
	for i := 0; i < 600; i++ {
		time.Sleep(5 * time.Millisecond)
		w.bus.mu.Lock()
		n := len(w.bus.Tap)
		w.bus.mu.Unlock()
		if n == last && w.bus.InFlight.Load() == 0 {
			stable++
			if stable >= 5 {
				return
			}
		} else {
			stable = 0
		}
		last = n
	}
}

func (w *c08World) memberNodes() []*Node {
	var out []*Node
	for _, n := range w.nodes {
		if w.members[n.Addr] {
			out = append(out, n)
		}
	}
	return out
}

// lastGroupTOML returns the group file of the last completed epoch as held by a member.
func (w *c08World) lastGroupTOML() []byte {
	for _, n := range w.memberNodes() {
		if f, _ := n.Finished(); f != nil && f.FinalGroup != nil {
			return GroupTOML(f.FinalGroup)
		}
	}
	return nil
}

func TestC08StateMachine(t *testing.T) {
	rec := stats.Open(t, "C08")
	rapid.Check(t, func(rt *rapid.T) {
		scheme := rapid.SampledFrom(fx.SchemeNames).Draw(rt, "scheme")
		seed := rapid.Uint64Range(1, 1<<32).Draw(rt, "keyseed")
		startComplete := rapid.Bool().Draw(rt, "startFromCompletedEpoch")
		allowExec := rapid.IntRange(0, 2).Draw(rt, "allowExecution") == 0
		defer Watchdog("c08", 280*time.Second)()
		w := &c08World{bus: NewBus(), scheme: scheme, seed: seed, members: map[string]bool{}}
		defer w.bus.CloseAll()
		sch := fx.Scheme(scheme)
		if startComplete {
			w.prev = fx.NewNet(seed, fx.Opts{Scheme: scheme, N: 3, T: 2, Period: 30 * time.Second, Catchup: time.Second, Genesis: time.Now().Add(-1000 * time.Second).Unix(), BeaconID: "c08", BasePort: 34000})
			ns, err := FastForward(w.bus, w.prev, 1, "c08", false)
			if err != nil {
				rt.Fatalf("ff: %v", err)
			}
			w.nodes = append(w.nodes, ns...)
			for _, n := range ns {
				w.members[n.Addr] = true
			}
			w.completedEpoch = 1
		}
		for len(w.nodes) < 5 {
			i := len(w.nodes)
			n, err := w.bus.AddNode(fx.Pair(seed, fmt.Sprintf("c08-%d", i), fmt.Sprintf("127.0.0.1:%d", 34100+i), sch), "c08", false)
			if err != nil {
				rt.Fatalf("node: %v", err)
			}
			w.nodes = append(w.nodes, n)
		}
		desc := func() string {
			return fmt.Sprintf("%s start=%v exec=%v :: %s", scheme, startComplete, allowExec, strings.Join(w.hist, " "))
		}
		fail := func(key, detail string) {
			rec.Violation(rt, key, detail+" || case: "+desc(), map[string]any{"history": w.hist})
		}
		flags := map[string]bool{}
		before := map[string]snap{}
		snapshot := func() {
			for _, n := range w.nodes {
				before[n.Addr] = takeSnap(n)
			}
		}
		// invariants comparing the snapshot taken before the action with the records now
		check := func(action string, actor *Node, actionErr error) {
			w.quiesce()
			for _, n := range w.nodes {
				b := before[n.Addr]
				a := takeSnap(n)
				if a.cur == nil || b.cur == nil {
					continue
				}
				// a command refused by validation leaves the records untouched; an error that only reports a failed delivery of the
				// gossip ("error sending packet") comes after the command was applied and is not a rejection
				if actionErr != nil && n == actor && !strings.Contains(actionErr.Error(), "error sending packet") && (a.curTOML != b.curTOML || a.finTOML != b.finTOML) {
					fail("C08/rejected-command-changed-state", fmt.Sprintf("%s on %s returned %v but its records changed (%v -> %v)", action, n.Addr, actionErr, b.cur.State, a.cur.State))
				}
				if a.cur.State != b.cur.State || a.cur.Epoch != b.cur.Epoch {
					from := b.cur.State
					// a terminal state is left through the last finished record
					if (from == dkg.Aborted || from == dkg.TimedOut || from == dkg.Failed) && (a.cur.State == dkg.Proposed || a.cur.State == dkg.Proposing) {
						from = dkg.Complete
						if b.fin == nil {
							from = dkg.Fresh
						}
					}
					steps := 1
					if action == "execution" || action == "execute" {
						steps = 3
					}
					if a.cur.State != b.cur.State && !reachable(from, a.cur.State, steps) && !reachable(b.cur.State, a.cur.State, steps) {
						fail("C08/illegal-transition", fmt.Sprintf("%s: %s moved %v -> %v (epoch %d -> %d)", action, n.Addr, b.cur.State, a.cur.State, b.cur.Epoch, a.cur.Epoch))
					}
					if a.cur.Epoch < b.cur.Epoch {
						fail("C08/epoch-decreased", fmt.Sprintf("%s: current epoch of %s went %d -> %d (%v -> %v)", action, n.Addr, b.cur.Epoch, a.cur.Epoch, b.cur.State, a.cur.State))
					}
				}
				if a.finTOML != b.finTOML {
					switch {
					case a.fin == nil:
						fail("C08/finished-record-lost", fmt.Sprintf("%s: %s lost its finished record", action, n.Addr))
					case a.fin.State != dkg.Complete || a.fin.FinalGroup == nil || a.fin.KeyShare == nil:
						fail("C08/finished-record-not-complete", fmt.Sprintf("%s: finished record of %s replaced by state %v (group %v share %v)", action, n.Addr, a.fin.State, a.fin.FinalGroup != nil, a.fin.KeyShare != nil))
					case b.fin != nil && a.fin.Epoch <= b.fin.Epoch:
						fail("C08/finished-record-replaced-by-older", fmt.Sprintf("%s: finished record of %s went from epoch %d to %d", action, n.Addr, b.fin.Epoch, a.fin.Epoch))
					}
				}
			}
		}
		nodeGen := rapid.IntRange(0, len(w.nodes)-1)
		timeoutIn := func() time.Time { return time.Now().Add(60 * time.Second) }

		// buildValidProposal returns the leader and the lists of a proposal that the protocol must accept now.
		type plan struct {
			leader                      *Node
			joining, remaining, leaving []*Node
			thr                         int
		}
		buildValid := func(t *rapid.T) (plan, bool) {
			var p plan
			if w.completedEpoch == 0 {
				// first epoch: everybody joins
				k := rapid.IntRange(2, len(w.nodes)).Draw(t, "njoin")
				perm := rapid.Permutation(w.nodes).Draw(t, "who")
				p.joining = perm[:k]
				p.leader = p.joining[0]
				p.thr = rapid.IntRange(k/2+1, k).Draw(t, "thr")
				return p, true
			}
			mem := w.memberNodes()
			// previous threshold
			var prevThr int
			if f, _ := mem[0].Finished(); f != nil {
				prevThr = int(f.Threshold)
			}
			maxLeave := len(mem) - prevThr
			nl := 0
			if maxLeave > 0 {
				nl = rapid.IntRange(0, maxLeave).Draw(t, "nleave")
			}
			perm := rapid.Permutation(mem).Draw(t, "memperm")
			p.leaving = perm[:nl]
			p.remaining = perm[nl:]
			// a member that chose to leave in an earlier (aborted) attempt is in state Left: it may be proposed to, but cannot lead
			for i, n := range p.remaining {
				if c, _ := n.Current(); c != nil && c.State != dkg.Left {
					p.remaining[0], p.remaining[i] = p.remaining[i], p.remaining[0]
					break
				}
			}
			if c, _ := p.remaining[0].Current(); c != nil && c.State == dkg.Left {
				return p, false
			}
			p.leader = p.remaining[0]
			// a node outside the group can only be proposed as a joiner if its own records allow the network's next epoch: it is
			// Fresh or Left, or its last completed epoch is the current one (validateEpoch); a former member that dropped out of an
			// attempt with abort instead of leaving is stuck one epoch behind and has to be reset by its operator
			canTake := func(n *Node, epoch uint32) bool {
				c, _ := n.Current()
				if c == nil {
					return true
				}
				base := c
				if c.State == dkg.Aborted || c.State == dkg.TimedOut || c.State == dkg.Failed {
					f, _ := n.Finished()
					if f == nil {
						return true
					}
					base = f
				}
				return epoch == base.Epoch+1 || (epoch > base.Epoch+1 && (base.State == dkg.Left || base.State == dkg.Fresh))
			}
			for _, n := range w.nodes {
				if !w.members[n.Addr] && !canTake(n, w.completedEpoch+1) {
					flags["outsider-stuck-behind"] = true
					continue
				}
				if !w.members[n.Addr] && rapid.Bool().Draw(t, "join") {
					// listed finding: a node whose record is in state Left (it left in an earlier epoch) panics on any later proposal;
					// such nodes are not proposed again so that the search continues behind the finding
					if c, _ := n.Current(); c != nil && c.State == dkg.Left && rec.KnownListed("C08/proposal-panics-on-node-in-left-state") {
						rec.Excluded()
						continue
					}
					p.joining = append(p.joining, n)
				}
			}
			// the same applies to members that "left" in an attempt that was aborted afterwards
			if rec.KnownListed("C08/proposal-panics-on-node-in-left-state") {
				for _, n := range append(append([]*Node{}, p.remaining...), p.leaving...) {
					if c, _ := n.Current(); c != nil && c.State == dkg.Left {
						rec.Excluded()
						return p, false
					}
				}
			}
			total := len(p.remaining) + len(p.joining)
			p.thr = rapid.IntRange(total/2+1, total).Draw(t, "thr")
			return p, true
		}
		propose := func(p plan) error {
			if w.completedEpoch == 0 {
				return p.leader.Initial(w.scheme, p.thr, 30, 1, time.Now().Add(100*time.Second), timeoutIn(), partsOf(p.joining))
			}
			return p.leader.Reshare(p.thr, 1, timeoutIn(), partsOf(p.joining), partsOf(p.remaining), partsOf(p.leaving))
		}
		var cur plan

		actions := map[string]func(*rapid.T){
			"validProposal": func(t *rapid.T) {
				if w.attemptOpen {
					t.Skip("an attempt is open")
				}
				p, ok := buildValid(t)
				if !ok {
					t.Skip("no valid proposal possible")
				}
				snapshot()
				err := propose(p)
				w.note("propose(e%d,leader=%s,j=%d,r=%d,l=%d,t=%d)->%v", w.completedEpoch+1, short(p.leader), len(p.joining), len(p.remaining), len(p.leaving), p.thr, errS(err))
				check("valid proposal", p.leader, err)
				if err != nil && strings.Contains(err.Error(), "panic contained") {
					// the listed finding concerns participants whose record is in state Left; a panic with no such participant is something else
					key := "C08/valid-proposal-panics"
					if w.lastTerminal != "" {
						key += "-after-" + w.lastTerminal
					}
					for _, n := range append(append(append([]*Node{}, p.joining...), p.remaining...), p.leaving...) {
						if c, _ := n.Current(); c != nil && c.State == dkg.Left {
							key = "C08/proposal-panics-on-node-in-left-state"
						}
					}
					fail(key, fmt.Sprintf("a valid proposal for epoch %d made a recipient panic (contained): %v", w.completedEpoch+1, err))
					w.dead = true
					return
				}
				if err != nil {
					key := "C08/valid-proposal-refused"
					if w.lastTerminal != "" {
						key = "C08/last-epoch-unusable-after-" + w.lastTerminal
					}
					fail(key, fmt.Sprintf("a valid proposal for epoch %d was refused: %v", w.completedEpoch+1, err))
				}
				// every recipient stored it
				for _, n := range append(append(append([]*Node{}, p.joining...), p.remaining...), p.leaving...) {
					if n == p.leader {
						continue
					}
					if c, _ := n.Current(); c == nil || c.State != dkg.Proposed || c.Epoch != w.completedEpoch+1 {
						fail("C08/valid-proposal-not-stored", fmt.Sprintf("%s did not store the valid proposal (state %v)", n.Addr, c))
					}
				}
				w.attemptOpen, w.attemptEpoch, w.attemptLeader, cur = true, w.completedEpoch+1, p.leader, p
				if w.lastTerminal != "" {
					flags["retry-after-"+w.lastTerminal] = true
				}
				flags["accepted-step"] = true
			},
			"invalidProposalCommand": func(t *rapid.T) {
				// operator asks for something the protocol must refuse
				n := w.nodes[nodeGen.Draw(t, "node")]
				kind := rapid.IntRange(0, 6).Draw(t, "kind")
				snapshot()
				var err error
				var what string
				all := partsOf(w.nodes)
				switch kind {
				case 0:
					what = "threshold-below-minimum"
					if w.completedEpoch == 0 {
						err = n.Initial(w.scheme, 1, 30, 1, time.Now().Add(100*time.Second), timeoutIn(), all)
					} else {
						err = n.Reshare(1, 1, timeoutIn(), nil, partsOf(w.memberNodes()), nil)
						if len(w.memberNodes()) <= 1 {
							what = "skip"
						}
					}
				case 1:
					what = "threshold-above-n"
					if w.completedEpoch == 0 {
						err = n.Initial(w.scheme, len(all)+1, 30, 1, time.Now().Add(100*time.Second), timeoutIn(), all)
					} else {
						err = n.Reshare(len(w.memberNodes())+1, 1, timeoutIn(), nil, partsOf(w.memberNodes()), nil)
					}
				case 2:
					what = "expired-timeout"
					if w.completedEpoch == 0 {
						err = n.Initial(w.scheme, 3, 30, 1, time.Now().Add(100*time.Second), time.Now().Add(-time.Second), all)
					} else {
						err = n.Reshare(len(w.memberNodes())/2+1, 1, time.Now().Add(-time.Second), nil, partsOf(w.memberNodes()), nil)
					}
				case 3:
					what = "drops-current-member"
					if w.completedEpoch == 0 || len(w.memberNodes()) < 3 {
						what = "skip"
					} else {
						mem := w.memberNodes()
						err = mem[0].Reshare(len(mem)/2+1, 1, timeoutIn(), nil, partsOf(mem[:len(mem)-1]), nil)
						n = mem[0]
					}
				case 5:
					// the lists have the right length, but one current member is replaced by a second entry of another
					what = "duplicate-entry-hides-dropped-member"
					if w.completedEpoch == 0 || len(w.memberNodes()) < 3 {
						what = "skip"
					} else {
						mem := w.memberNodes()
						lst := append(append([]*Node{}, mem[:len(mem)-1]...), mem[len(mem)-2])
						err = mem[0].Reshare(len(mem)/2+1, 1, timeoutIn(), nil, partsOf(lst), nil)
						n = mem[0]
					}
				case 6:
					// fewer holders of the current shares stay than the current threshold: the secret could not be handed over,
					// however many joiners pad the list
					what = "remainers-below-current-threshold"
					mem := w.memberNodes()
					var outs []*Node
					for _, o := range w.nodes {
						if !w.members[o.Addr] {
							outs = append(outs, o)
						}
					}
					prevThr := 0
					if w.completedEpoch > 0 {
						if f, _ := mem[0].Finished(); f != nil {
							prevThr = int(f.Threshold)
						}
					}
					if w.completedEpoch == 0 || prevThr < 2 || len(outs) < 2 {
						what = "skip"
					} else {
						stay := mem[:prevThr-1]
						total := len(stay) + len(outs)
						err = mem[0].Reshare(total/2+1, 1, timeoutIn(), partsOf(outs), partsOf(stay), partsOf(mem[prevThr-1:]))
						n = mem[0]
					}
				case 4:
					what = "unknown-scheme"
					if w.completedEpoch != 0 {
						what = "skip"
					} else {
						err = n.Initial("no-such-scheme", 3, 30, 1, time.Now().Add(100*time.Second), timeoutIn(), all)
					}
				}
				if what == "skip" {
					t.Skip("not applicable")
				}
				w.note("badPropose(%s,%s)->%v", short(n), what, errS(err))
				if err == nil && !w.attemptOpen {
					fail("C08/invalid-proposal-accepted", fmt.Sprintf("command %q on %s was accepted", what, n.Addr))
					w.attemptOpen = true
				}
				if err == nil && w.attemptOpen && n != w.attemptLeader {
					// any proposal while another attempt is open must be refused as well
				}
				check("invalid proposal command "+what, n, err)
				flags["rejected-step"] = true
			},
			"injectInvalidProposal": func(t *rapid.T) {
				// a proposal signed by a real member/leader key whose terms the recipients must refuse
				if w.attemptOpen {
					t.Skip("attempt open")
				}
				p, ok := buildValid(t)
				if !ok {
					t.Skip("no leader available")
				}
				kind := rapid.IntRange(0, 9).Draw(t, "class")
				names := []string{"stale-epoch", "epoch+2", "threshold-below-minimum", "threshold-above-n", "expired-timeout", "changed-genesis-time", "changed-genesis-seed", "wrong-beacon-id",
					"member-dropped", "duplicate-entry-hides-dropped-member"}
				what := names[kind]
				if w.completedEpoch == 0 && (kind == 0 || kind == 5 || kind == 6 || kind >= 8) {
					t.Skip("needs a completed epoch")
				}
				if kind >= 8 && len(p.remaining) < 3 {
					t.Skip("needs three remaining members")
				}
				terms := &pdkg.ProposalTerms{BeaconID: "c08", Epoch: w.completedEpoch + 1, Leader: p.leader.Part, Threshold: uint32(p.thr), Timeout: timestamppb.New(timeoutIn()),
					CatchupPeriodSeconds: 1, BeaconPeriodSeconds: 30, SchemeID: w.scheme, GenesisTime: timestamppb.New(time.Now().Add(100 * time.Second)),
					Joining: partsOf(p.joining), Remaining: partsOf(p.remaining), Leaving: partsOf(p.leaving)}
				if w.completedEpoch > 0 {
					f, _ := w.memberNodes()[0].Finished()
					terms.GenesisTime = timestamppb.New(f.GenesisTime)
					terms.GenesisSeed = f.GenesisSeed
					terms.BeaconPeriodSeconds = uint32(f.BeaconPeriod.Seconds())
				}
				total := len(p.joining) + len(p.remaining)
				switch kind {
				case 0:
					terms.Epoch = w.completedEpoch
				case 1:
					terms.Epoch = w.completedEpoch + 2
				case 2:
					terms.Threshold = uint32(total / 2)
				case 3:
					terms.Threshold = uint32(total + 1)
				case 4:
					terms.Timeout = timestamppb.New(time.Now().Add(-2 * time.Second))
				case 5:
					terms.GenesisTime = timestamppb.New(terms.GenesisTime.AsTime().Add(time.Second))
				case 6:
					terms.GenesisSeed = flip(terms.GenesisSeed)
				case 7:
					terms.BeaconID = "other"
				case 8:
					// a current member is neither remaining nor leaving
					terms.Remaining = terms.Remaining[:len(terms.Remaining)-1]
				case 9:
					// the same, hidden behind a second entry of another member so that the list lengths still add up
					terms.Remaining = append(terms.Remaining[:len(terms.Remaining)-1:len(terms.Remaining)-1], terms.Remaining[len(terms.Remaining)-2])
				}
				pkt := &pdkg.GossipPacket{Packet: &pdkg.GossipPacket_Proposal{Proposal: terms}}
				pkt.Metadata = signAs(p.leader.Pair, "c08", pkt, terms, p.leader.Addr)
				snapshot()
				var accepted []string
				for _, n := range w.nodes {
					if n == p.leader {
						continue
					}
					isMember := w.members[n.Addr]
					// classes that only an existing member can detect are not required of outsiders
					if !isMember && (kind == 0 || kind == 1 || kind == 5 || kind == 6 || kind >= 8) {
						continue
					}
					if err := deliver(n, proto.Clone(pkt).(*pdkg.GossipPacket)); err == nil {
						accepted = append(accepted, n.Addr)
					}
				}
				w.note("inject(%s)->accepted by %d", what, len(accepted))
				if len(accepted) > 0 {
					// the known genesis-seed gap of C09 concerns joiners only; members must refuse
					fail("C08/invalid-proposal-accepted/"+what, fmt.Sprintf("a %s proposal signed by %s was accepted by %v", what, p.leader.Addr, accepted))
				}
				check("injected invalid proposal "+what, nil, nil)
				flags["rejected-step"] = true
				flags["invalid/"+what] = true
			},
			"accept": func(t *rapid.T) {
				n := w.nodes[nodeGen.Draw(t, "node")]
				snapshot()
				err := n.Accept()
				w.note("accept(%s)->%v", short(n), errS(err))
				check("accept", n, err)
			},
			"reject": func(t *rapid.T) {
				n := w.nodes[nodeGen.Draw(t, "node")]
				snapshot()
				err := n.Reject()
				w.note("reject(%s)->%v", short(n), errS(err))
				check("reject", n, err)
			},
			"join": func(t *rapid.T) {
				n := w.nodes[nodeGen.Draw(t, "node")]
				var gf []byte
				which := rapid.SampledFrom([]string{"right", "none", "garbage"}).Draw(t, "groupfile")
				switch which {
				case "right":
					gf = w.lastGroupTOML()
				case "garbage":
					gf = []byte("Threshold = 1\nPeriod = \"x\"")
				}
				snapshot()
				err := n.Join(gf)
				w.note("join(%s,%s)->%v", short(n), which, errS(err))
				check("join", n, err)
			},
			"abort": func(t *rapid.T) {
				n := w.nodes[nodeGen.Draw(t, "node")]
				snapshot()
				err := n.Abort()
				w.note("abort(%s)->%v", short(n), errS(err))
				check("abort", n, err)
				if err == nil && w.attemptOpen && n == w.attemptLeader {
					w.attemptOpen = false
					w.lastTerminal = "abort"
					flags["abort"] = true
				}
			},
			"executeWithoutRunning": func(t *rapid.T) {
				// execute from somebody who is not entitled (or at the wrong moment): must be refused
				n := w.nodes[nodeGen.Draw(t, "node")]
				if w.attemptOpen && n == w.attemptLeader {
					t.Skip("that would start a real execution")
				}
				snapshot()
				err := n.Execute()
				w.note("execute(%s)->%v", short(n), errS(err))
				isLeaver := false
				if w.attemptOpen {
					for _, l := range cur.leaving {
						if l == n {
							isLeaver = true
						}
					}
				}
				if err == nil && isLeaver {
					// a node that the open proposal lists as leaving uses this command to leave: its own record moves to Left (legal)
					if c, _ := n.Current(); c == nil || c.State != dkg.Left {
						fail("C08/leaver-execute-wrong-state", fmt.Sprintf("leaver %s ran execute and is now in state %v", n.Addr, c))
					}
				} else if err == nil {
					fail("C08/execute-by-non-leader-accepted", fmt.Sprintf("%s is not the leader of an open attempt but its execute command succeeded", n.Addr))
				}
				check("execute by non-leader", n, err)
				flags["rejected-step"] = true
			},
			"runExecution": func(t *rapid.T) {
				if !allowExec || !w.attemptOpen {
					t.Skip("no execution in this case")
				}
				// everybody does its part, then the leader executes and the protocol runs to completion
				for _, n := range cur.remaining {
					if n != cur.leader {
						_ = n.Accept()
					}
				}
				gf := w.lastGroupTOML()
				for _, n := range cur.joining {
					if n != cur.leader {
						_ = n.Join(gf)
					}
				}
				w.quiesce()
				snapshot()
				err := cur.leader.Execute()
				w.note("execute(%s)->%v", short(cur.leader), errS(err))
				if err != nil {
					check("execute", cur.leader, err)
					fail("C08/execute-refused", fmt.Sprintf("the leader's execute of a fully accepted proposal was refused: %v", err))
					return
				}
				members := append(append([]*Node{}, cur.remaining...), cur.joining...)
				fin := WaitFinished(members, w.attemptEpoch, 40*time.Second)
				w.note("completed=%d/%d", len(fin), len(members))
				check("execution", nil, nil)
				if len(fin) == len(members) {
					w.completedEpoch = w.attemptEpoch
					w.members = map[string]bool{}
					for _, n := range members {
						w.members[n.Addr] = true
					}
					w.attemptOpen = false
					w.lastTerminal = ""
					flags["completed-epoch"] = true
					if w.completedEpoch >= 2 {
						flags["epoch>=2"] = true
					}
					// the beacon-side output fired for Complete only
				} else {
					// some finished and some did not (timing): the network is now in a mixed state that only operators can sort out;
					// the invariants above were checked, the model stops here
					w.dead = true
					flags["partial-completion"] = true
				}
			},
		}
		actions["failExecution"] = func(t *rapid.T) {
			if !allowExec || !w.attemptOpen || flags["failure"] {
				t.Skip("no (further) failed execution in this case")
			}
			// everybody does its part and the leader executes, but no DKG bundle gets through: the execution fails on every node
			for _, n := range cur.remaining {
				if n != cur.leader {
					_ = n.Accept()
				}
			}
			gf := w.lastGroupTOML()
			for _, n := range cur.joining {
				if n != cur.leader {
					_ = n.Join(gf)
				}
			}
			w.quiesce()
			snapshot()
			w.bus.SetBlock(func(m *Msg) bool { return strings.HasPrefix(m.Kind, "dkg:") })
			err := cur.leader.Execute()
			w.note("execute(%s)+cut->%v", short(cur.leader), errS(err))
			if err != nil {
				w.bus.SetBlock(nil)
				check("execute", cur.leader, err)
				fail("C08/execute-refused", fmt.Sprintf("the leader's execute of a fully accepted proposal was refused: %v", err))
				return
			}
			members := append(append([]*Node{}, cur.remaining...), cur.joining...)
			deadline := time.Now().Add(40 * time.Second)
			for {
				done := 0
				for _, n := range members {
					if c, _ := n.Current(); c != nil && (c.State == dkg.Failed || c.State == dkg.TimedOut || c.State == dkg.Complete) {
						done++
					}
				}
				if done == len(members) || time.Now().After(deadline) {
					w.note("terminal=%d/%d", done, len(members))
					break
				}
				time.Sleep(100 * time.Millisecond)
			}
			w.bus.SetBlock(nil)
			check("execution", nil, nil)
			for _, n := range members {
				if c, _ := n.Current(); c == nil || (c.State != dkg.Failed && c.State != dkg.TimedOut) {
					// not everybody reached a terminal failure state in time (or somebody completed): mixed state, the model stops
					w.dead = true
					flags["partial-failure"] = true
					return
				}
			}
			w.attemptOpen = false
			w.lastTerminal = "failure"
			flags["failure"] = true
		}
		actions["idle"] = func(t *rapid.T) {}
		for name, f := range actions {
			if name == "idle" {
				continue
			}
			f := f
			actions[name] = func(t *rapid.T) {
				if w.dead {
					// the model has stopped (mixed state after a partial completion): the remaining steps are no-ops. They do not
					// Skip: rapid gives up a run after 100 skipped draws in a row, which long thorough runs did reach
					return
				}
				f(t)
			}
		}
		rt.Repeat(actions)
		labels := []string{"scheme/" + scheme, fmt.Sprintf("start-complete=%v", startComplete)}
		for f := range flags {
			labels = append(labels, f)
		}
		nt := flags["accepted-step"] && flags["rejected-step"] && (flags["epoch>=2"] || flags["retry-after-abort"] || flags["retry-after-failure"] || startComplete)
		rec.Case(desc(), nt, labels...)
	})
}

func short(n *Node) string {
	if n == nil {
		return "-"
	}
	return n.Addr[len(n.Addr)-4:]
}

func errS(err error) string {
	if err == nil {
		return "ok"
	}
	s := err.Error()
	if len(s) > 50 {
		s = s[:50]
	}
	return "ERR(" + s + ")"
}

// TestC08KnownFindingReplay: a member leaves in epoch 2 and is proposed as a joiner for epoch 3 (fixed shape, no generator).
func TestC08KnownFindingReplay(t *testing.T) {
	rec := stats.Open(t, "C08")
	defer Watchdog("c08replay", 200*time.Second)()
	bus := NewBus()
	defer bus.CloseAll()
	prev := fx.NewNet(21, fx.Opts{Scheme: fx.SchemeNames[0], N: 3, T: 2, Period: 30 * time.Second, Catchup: time.Second, Genesis: time.Now().Add(-1000 * time.Second).Unix(), BeaconID: "c08", BasePort: 34000})
	ns, err := FastForward(bus, prev, 1, "c08", false)
	if err != nil {
		t.Fatal(err)
	}
	desc := "replay: 3 members; epoch 2 removes node 2 (it runs execute -> Left) and completes; epoch 3 proposes node 2 as a joiner: node 2 panics (contained)"
	if err := ns[0].Reshare(2, 1, time.Now().Add(60*time.Second), nil, partsOf(ns[:2]), partsOf(ns[2:])); err != nil {
		t.Fatalf("reshare: %v", err)
	}
	time.Sleep(50 * time.Millisecond)
	if err := ns[2].Execute(); err != nil {
		t.Fatalf("leaver execute: %v", err)
	}
	if c, _ := ns[2].Current(); c == nil || c.State != dkg.Left {
		t.Fatalf("leaver not in Left state: %v", c)
	}
	// epoch 2 completes without node 2
	if err := waitFor(3*time.Second, ns[1].Accept); err != nil {
		t.Fatalf("accept: %v", err)
	}
	if err := ns[0].Execute(); err != nil {
		t.Fatalf("execute: %v", err)
	}
	if fin := WaitFinished(ns[:2], 2, 40*time.Second); len(fin) != 2 {
		t.Fatalf("epoch 2 did not complete: %d", len(fin))
	}
	// epoch 3 brings the former member back as a joiner
	err = ns[0].Reshare(2, 1, time.Now().Add(60*time.Second), partsOf(ns[2:]), partsOf(ns[:2]), nil)
	if err != nil && strings.Contains(err.Error(), "panic contained") {
		rec.Violation(t, "C08/proposal-panics-on-node-in-left-state", fmt.Sprintf("%v || case: %s", err, desc), nil)
	} else {
		t.Logf("listed finding no longer reproduces: %v", err)
		rec.Label("known-finding-no-longer-reproduces")
	}
	rec.Case(desc, true, "known-finding-replay")
	rec.Case(desc+" (fixed replay case)", true, "known-finding-replay")
}
