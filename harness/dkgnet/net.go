// Package dkgnet runs real dkg.Process instances joined by an in-memory DKGClient bus (DESIGN.md §2.3 E-dkgnet).
package dkgnet

import (
	"strings"
	"bytes"
	"context"
	"errors"
	"fmt"
	"os"
	"runtime"
	"sync"
	"sync/atomic"
	"time"

	"github.com/BurntSushi/toml"
	"google.golang.org/grpc"
	"google.golang.org/protobuf/proto"
	"google.golang.org/protobuf/types/known/timestamppb"

	"github.com/drand/drand/v2/common/key"
	"github.com/drand/drand/v2/crypto"
	"github.com/drand/drand/v2/internal/dkg"
	dnet "github.com/drand/drand/v2/internal/net"
	"github.com/drand/drand/v2/internal/util"
	pdkg "github.com/drand/drand/v2/protobuf/dkg"
	"github.com/drand/drand/v2/verifharness/fx"
	"github.com/drand/drand/v2/verifharness/hlog"
)

// Msg is one message seen on the bus.
type Msg struct {
	Seq      int64
	From, To string
	Kind     string // "gossip:<type>" or "dkg:<bundle type>"
	Raw      []byte // marshalled protobuf (for C15 scanning)
	Err      string
	Gossip   *pdkg.GossipPacket
	delay    time.Duration
}

// Policy decides what happens to a message (called in the delivering goroutine).
type Policy struct {
	// Delay is slept before delivery.
	Delay func(m *Msg) time.Duration
	// Dup delivers the message twice.
	Dup func(m *Msg) bool
	// FailOnce makes the first attempt of matching messages fail (the sender retries).
	FailOnce func(m *Msg) bool
	// Block refuses delivery (peer unreachable).
	Block func(m *Msg) bool
}

// Bus is the in-memory DKGClient.
type Bus struct {
	mu      sync.Mutex
	nodes   map[string]*Node
	seq     atomic.Int64
	Tap     []*Msg
	KeepRaw bool
	Policy  Policy
	failed  map[string]bool
	// AsyncBundles makes a delayed DKG bundle travel on its own: the sender's call returns at once and the bundle reaches the
	// receiver after the delay. Without it the delay is spent inside the sender's call, and drand sends to one peer sequentially,
	// so a link delay of d holds back the k-th queued bundle by k*d (a model of a peer that acknowledges slowly, not of latency).
	AsyncBundles bool
	// InFlight counts calls that are being delivered right now.
	InFlight atomic.Int64
	// MaxBundleLatencyNs is the longest time a DKG bundle took from the sender's call to the end of its processing by the
	// receiver (scheduled delay + whatever the machine added).
	bundleLat map[string]int64
	// Panics collects handler panics contained by safePacket.
	Panics []string
	// Intercept, when set, sees every gossip packet before delivery and may replace it (nil = drop silently).
	Intercept func(m *Msg, p *pdkg.GossipPacket) *pdkg.GossipPacket
}

// Node is one DKG participant.
type Node struct {
	Addr     string
	Pair     *key.Pair
	Part     *pdkg.Participant
	Proc     *dkg.Process
	Store    *dkg.BoltStore
	Out      chan dkg.SharingOutput
	Log      *hlog.Logger
	Dir      string
	Down     bool
	bus      *Bus
	client   *client
	BeaconID string
}

type ident struct{ p *key.Pair }

func (i ident) KeypairFor(string) (*key.Pair, error) { return i.p, nil }

// NewBus makes an empty bus.
func NewBus() *Bus { return &Bus{nodes: map[string]*Node{}, failed: map[string]bool{}} }

// Config for the DKG processes.
var DKGConf = dkg.Config{Timeout: time.Minute, TimeBetweenDKGPhases: 2 * time.Second, KickoffGracePeriod: 250 * time.Millisecond}

// AddNode creates a node with a real bolt dkg.db in a scratch dir.
func (b *Bus) AddNode(pair *key.Pair, beaconID string, keepLogs bool) (*Node, error) {
	base := os.Getenv("VERIF_SCRATCH")
	if base == "" {
		base = "/dev/shm"
	}
	dir, err := os.MkdirTemp(base, "dkgnode")
	if err != nil {
		return nil, err
	}
	n := &Node{Addr: pair.Public.Addr, Pair: pair, Log: hlog.New(keepLogs), Dir: dir, bus: b, BeaconID: beaconID}
	n.Part, err = util.PublicKeyAsParticipant(pair.Public)
	if err != nil {
		return nil, err
	}
	if err := n.open(); err != nil {
		return nil, err
	}
	b.mu.Lock()
	b.nodes[n.Addr] = n
	b.mu.Unlock()
	return n, nil
}

func (n *Node) open() error {
	st, err := dkg.NewDKGStore(n.Dir)
	if err != nil {
		return err
	}
	n.Store = st
	out := util.NewFanOutChan[dkg.SharingOutput]()
	n.Out = out.Listen()
	n.client = &client{b: n.bus, from: n}
	n.Proc = dkg.NewDKGProcess(st, ident{n.Pair}, out, n.client, nil, DKGConf, n.Log)
	return nil
}

// Close stops the process and removes the scratch dir.
func (n *Node) Close() {
	n.bus.mu.Lock()
	p := n.Proc
	n.Proc = nil
	n.bus.mu.Unlock()
	if p != nil {
		p.Close()
	}
	_ = os.RemoveAll(n.Dir)
}

// CloseAll closes every node.
func (b *Bus) CloseAll() {
	b.mu.Lock()
	ns := make([]*Node, 0, len(b.nodes))
	for _, n := range b.nodes {
		ns = append(ns, n)
	}
	b.mu.Unlock()
	for _, n := range ns {
		n.Close()
	}
}

// Node returns the node at addr.
func (b *Bus) Node(addr string) *Node {
	b.mu.Lock()
	defer b.mu.Unlock()
	return b.nodes[addr]
}

type client struct {
	b    *Bus
	from *Node
}

var _ dnet.DKGClient = (*client)(nil)

func gossipKind(p *pdkg.GossipPacket) string {
	switch p.Packet.(type) {
	case *pdkg.GossipPacket_Proposal:
		return "gossip:proposal"
	case *pdkg.GossipPacket_Accept:
		return "gossip:accept"
	case *pdkg.GossipPacket_Reject:
		return "gossip:reject"
	case *pdkg.GossipPacket_Execute:
		return "gossip:execute"
	case *pdkg.GossipPacket_Abort:
		return "gossip:abort"
	case *pdkg.GossipPacket_Dkg:
		return "gossip:dkg"
	}
	return "gossip:unknown"
}

func bundleKind(p *pdkg.DKGPacket) string {
	switch p.GetDkg().GetBundle().(type) {
	case *pdkg.Packet_Deal:
		return "dkg:deal"
	case *pdkg.Packet_Response:
		return "dkg:response"
	case *pdkg.Packet_Justification:
		return "dkg:justification"
	}
	return "dkg:unknown"
}

func (c *client) record(to, kind string, pm proto.Message) *Msg {
	m := &Msg{Seq: c.b.seq.Add(1), From: c.from.Addr, To: to, Kind: kind}
	if c.b.KeepRaw {
		m.Raw, _ = proto.Marshal(pm)
	}
	c.b.mu.Lock()
	c.b.Tap = append(c.b.Tap, m)
	c.b.mu.Unlock()
	return m
}

// MaxBundleLatency returns the longest bundle latency over all senders except `except` ("" = none).
func (b *Bus) MaxBundleLatency(except string) time.Duration {
	b.mu.Lock()
	defer b.mu.Unlock()
	var m int64
	for a, l := range b.bundleLat {
		if a != except && l > m {
			m = l
		}
	}
	return time.Duration(m)
}

// SetBlock installs (or removes) the Block policy while nodes are running.
func (b *Bus) SetBlock(f func(m *Msg) bool) {
	b.mu.Lock()
	b.Policy.Block = f
	b.mu.Unlock()
}

func (c *client) pre(m *Msg) (*dkg.Process, error) {
	b := c.b
	b.mu.Lock()
	pol := b.Policy
	target := b.nodes[m.To]
	var proc *dkg.Process
	if target != nil {
		proc = target.Proc
	}
	b.mu.Unlock()
	if target == nil || target.Down || proc == nil || c.from.Down {
		m.Err = "unreachable"
		return nil, errors.New("unreachable (harness)")
	}
	if pol.Block != nil && pol.Block(m) {
		m.Err = "blocked"
		return nil, errors.New("connection refused (harness)")
	}
	if pol.FailOnce != nil && pol.FailOnce(m) {
		k := fmt.Sprintf("%s>%s:%s", m.From, m.To, m.Kind)
		b.mu.Lock()
		first := !b.failed[k]
		b.failed[k] = true
		b.mu.Unlock()
		if first {
			m.Err = "failed once"
			return nil, errors.New("transient failure (harness)")
		}
	}
	if pol.Delay != nil {
		if d := pol.Delay(m); d > 0 {
			if c.b.AsyncBundles && strings.HasPrefix(m.Kind, "dkg:") {
				m.delay = d // delivered later by the caller, without holding up the sender
			} else {
				time.Sleep(d)
			}
		}
	}
	return proc, nil
}

func (c *client) Packet(ctx context.Context, p dnet.Peer, packet *pdkg.GossipPacket, _ ...grpc.CallOption) (*pdkg.EmptyDKGResponse, error) {
	c.b.InFlight.Add(1)
	defer c.b.InFlight.Add(-1)
	m := c.record(p.Address(), gossipKind(packet), packet)
	m.Gossip = packet
	target, err := c.pre(m)
	if err != nil {
		return nil, err
	}
	if ic := c.b.Intercept; ic != nil {
		packet = ic(m, packet)
		if packet == nil {
			return &pdkg.EmptyDKGResponse{}, nil
		}
	}
	// every receiver gets its own copy, as over the wire
	cp := proto.Clone(packet).(*pdkg.GossipPacket)
	resp, err := c.b.safePacket(target, cp)
	if err != nil {
		m.Err = err.Error()
	}
	if pol := c.b.Policy; pol.Dup != nil && pol.Dup(m) {
		_, _ = target.Packet(context.Background(), proto.Clone(packet).(*pdkg.GossipPacket))
	}
	return resp, err
}

func (c *client) BroadcastDKG(ctx context.Context, p dnet.Peer, in *pdkg.DKGPacket, _ ...grpc.CallOption) (*pdkg.EmptyDKGResponse, error) {
	c.b.InFlight.Add(1)
	defer c.b.InFlight.Add(-1)
	t0 := time.Now()
	defer func() {
		lat := int64(time.Since(t0))
		c.b.mu.Lock()
		if c.b.bundleLat == nil {
			c.b.bundleLat = map[string]int64{}
		}
		if lat > c.b.bundleLat[c.from.Addr] {
			c.b.bundleLat[c.from.Addr] = lat
		}
		c.b.mu.Unlock()
	}()
	m := c.record(p.Address(), bundleKind(in), in)
	target, err := c.pre(m)
	if err != nil {
		return nil, err
	}
	cp := proto.Clone(in).(*pdkg.DKGPacket)
	deliver := func() (*pdkg.EmptyDKGResponse, error) {
		resp, err := target.BroadcastDKG(context.Background(), cp)
		if err != nil {
			m.Err = err.Error()
		}
		if pol := c.b.Policy; pol.Dup != nil && pol.Dup(m) {
			_, _ = target.BroadcastDKG(context.Background(), proto.Clone(in).(*pdkg.DKGPacket))
		}
		return resp, err
	}
	if m.delay > 0 {
		c.b.InFlight.Add(1)
		go func() {
			defer c.b.InFlight.Add(-1)
			time.Sleep(m.delay)
			_, _ = deliver()
			lat := int64(time.Since(t0))
			c.b.mu.Lock()
			if c.b.bundleLat == nil {
				c.b.bundleLat = map[string]int64{}
			}
			if lat > c.b.bundleLat[c.from.Addr] {
				c.b.bundleLat[c.from.Addr] = lat
			}
			c.b.mu.Unlock()
		}()
		return &pdkg.EmptyDKGResponse{}, nil
	}
	return deliver()
}

// safePacket delivers a packet the way the daemon's gRPC server does: a panic in the handler is contained and reported to the
// caller as an error (the real listener installs a recovery interceptor); the harness counts them.
func (b *Bus) safePacket(target *dkg.Process, p *pdkg.GossipPacket) (resp *pdkg.EmptyDKGResponse, err error) {
	defer func() {
		if r := recover(); r != nil {
			b.mu.Lock()
			b.Panics = append(b.Panics, fmt.Sprint(r))
			b.mu.Unlock()
			resp, err = nil, fmt.Errorf("panic contained (as the recovery interceptor would): %v", r)
		}
	}()
	return target.Packet(context.Background(), p)
}

// safeBroadcast is safePacket for the DKG broadcast entry point.
func (b *Bus) safeBroadcast(target *dkg.Process, p *pdkg.DKGPacket) (resp *pdkg.EmptyDKGResponse, err error) {
	defer func() {
		if r := recover(); r != nil {
			b.mu.Lock()
			b.Panics = append(b.Panics, fmt.Sprint(r))
			b.mu.Unlock()
			resp, err = nil, fmt.Errorf("panic contained (as the recovery interceptor would): %v", r)
		}
	}()
	return target.BroadcastDKG(context.Background(), p)
}

// ---- commands ----

func meta(id string) *pdkg.CommandMetadata { return &pdkg.CommandMetadata{BeaconID: id} }

// Initial proposes epoch 1.
func (n *Node) Initial(scheme string, thr int, periodS, catchupS uint32, genesis time.Time, timeout time.Time, joining []*pdkg.Participant) error {
	_, err := n.Proc.Command(context.Background(), &pdkg.DKGCommand{Metadata: meta(n.BeaconID), Command: &pdkg.DKGCommand_Initial{Initial: &pdkg.FirstProposalOptions{
		Timeout: timestamppb.New(timeout), Threshold: uint32(thr), PeriodSeconds: periodS, Scheme: scheme, CatchupPeriodSeconds: catchupS,
		GenesisTime: timestamppb.New(genesis), Joining: joining}}})
	return err
}

// Reshare proposes the next epoch.
func (n *Node) Reshare(thr int, catchupS uint32, timeout time.Time, joining, remaining, leaving []*pdkg.Participant) error {
	_, err := n.Proc.Command(context.Background(), &pdkg.DKGCommand{Metadata: meta(n.BeaconID), Command: &pdkg.DKGCommand_Resharing{Resharing: &pdkg.ProposalOptions{
		Timeout: timestamppb.New(timeout), Threshold: uint32(thr), CatchupPeriodSeconds: catchupS, Joining: joining, Remaining: remaining, Leaving: leaving}}})
	return err
}

func (n *Node) simple(c *pdkg.DKGCommand) error {
	c.Metadata = meta(n.BeaconID)
	_, err := n.Proc.Command(context.Background(), c)
	return err
}

func (n *Node) Join(groupFile []byte) error {
	return n.simple(&pdkg.DKGCommand{Command: &pdkg.DKGCommand_Join{Join: &pdkg.JoinOptions{GroupFile: groupFile}}})
}
func (n *Node) Accept() error {
	return n.simple(&pdkg.DKGCommand{Command: &pdkg.DKGCommand_Accept{Accept: &pdkg.AcceptOptions{}}})
}
func (n *Node) Reject() error {
	return n.simple(&pdkg.DKGCommand{Command: &pdkg.DKGCommand_Reject{Reject: &pdkg.RejectOptions{}}})
}
func (n *Node) Execute() error {
	return n.simple(&pdkg.DKGCommand{Command: &pdkg.DKGCommand_Execute{Execute: &pdkg.ExecutionOptions{}}})
}
func (n *Node) Abort() error {
	return n.simple(&pdkg.DKGCommand{Command: &pdkg.DKGCommand_Abort{Abort: &pdkg.AbortOptions{}}})
}

// Current / Finished read the node's dkg.db.
func (n *Node) Current() (*dkg.DBState, error)  { return n.Store.GetCurrent(n.BeaconID) }
func (n *Node) Finished() (*dkg.DBState, error) { return n.Store.GetFinished(n.BeaconID) }

// GroupTOML renders a group file as the `join --group` option expects.
func GroupTOML(g *key.Group) []byte {
	var buf bytes.Buffer
	_ = toml.NewEncoder(&buf).Encode(g.TOML())
	return buf.Bytes()
}

// FastForward writes a synthetic completed epoch (group + share from the harness's own polynomial) into every node of the fixture.
func FastForward(b *Bus, e *fx.Net, epoch uint32, beaconID string, keepLogs bool) ([]*Node, error) {
	parts := make([]*pdkg.Participant, e.N)
	for i, p := range e.Pairs {
		pp, err := util.PublicKeyAsParticipant(p.Public)
		if err != nil {
			return nil, err
		}
		parts[i] = pp
	}
	var out []*Node
	for i, p := range e.Pairs {
		n := b.Node(p.Public.Addr)
		if n == nil {
			var err error
			n, err = b.AddNode(p, beaconID, keepLogs)
			if err != nil {
				return nil, err
			}
		}
		st := &dkg.DBState{
			BeaconID: beaconID, Epoch: epoch, State: dkg.Complete, Threshold: uint32(e.T), Timeout: time.Now().Add(-time.Hour), SchemeID: e.Scheme.Name,
			GenesisTime: time.Unix(e.Group.GenesisTime, 0).UTC(), GenesisSeed: e.Group.GetGenesisSeed(), CatchupPeriod: e.Group.CatchupPeriod, BeaconPeriod: e.Group.Period,
			Leader: parts[0], Joining: parts, Acceptors: nil, FinalGroup: e.Group, KeyShare: e.Shares[i],
		}
		if epoch > 1 {
			st.Joining, st.Remaining = nil, parts
		}
		if err := n.Store.SaveFinished(beaconID, st); err != nil {
			return nil, err
		}
		out = append(out, n)
	}
	return out, nil
}

// WatchdogNote is included in the dump (set it to the case descriptor).
var WatchdogNote atomic.Value

// Watchdog dumps all goroutine stacks to $VERIF_STATS_DIR/wedged-<label>.txt and exits with status 3 when a case runs longer than max.
// A wedged case is never an oracle: the driver reports exit 2. Call the returned function when the case is over.
func Watchdog(label string, max time.Duration) func() {
	t := time.AfterFunc(max, func() {
		buf := make([]byte, 8<<20)
		n := runtime.Stack(buf, true)
		dir := os.Getenv("VERIF_STATS_DIR")
		if dir == "" {
			dir = os.TempDir()
		}
		note, _ := WatchdogNote.Load().(string)
		_ = os.WriteFile(fmt.Sprintf("%s/wedged-%s-%d.txt", dir, label, os.Getpid()), append([]byte("case: "+note+"\n\n"), buf[:n]...), 0o644)
		fmt.Fprintf(os.Stderr, "WATCHDOG: case %s still running after %v, goroutine dump written\n", label, max)
		os.Exit(3)
	})
	return func() { t.Stop() }
}

// SchemeOf is a tiny helper.
func SchemeOf(name string) *crypto.Scheme { return fx.Scheme(name) }

// WaitFinished waits until every listed node has a finished record of the given epoch (or timeout). Returns those that have.
func WaitFinished(nodes []*Node, epoch uint32, max time.Duration) []*Node {
	deadline := time.Now().Add(max)
	for {
		var done []*Node
		for _, n := range nodes {
			if f, err := n.Finished(); err == nil && f != nil && f.Epoch == epoch && f.State == dkg.Complete {
				done = append(done, n)
			}
		}
		if len(done) == len(nodes) || time.Now().After(deadline) {
			return done
		}
		time.Sleep(10 * time.Millisecond)
	}
}
