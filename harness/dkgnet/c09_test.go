package dkgnet

import (
	"sync"
	"sync/atomic"
	"bytes"
	"encoding/binary"
	"fmt"
	"strings"
	"testing"
	"time"

	"github.com/BurntSushi/toml"
	"google.golang.org/protobuf/proto"
	"google.golang.org/protobuf/types/known/timestamppb"

	"github.com/drand/drand/v2/common/key"
	pdkg "github.com/drand/drand/v2/protobuf/dkg"
	"github.com/drand/drand/v2/verifharness/fx"
	"github.com/drand/drand/v2/verifharness/stats"
	"pgregory.net/rapid"
)

// signedMessage is the harness's replica of what a DKG gossip signature covers (format of the pinned tree). It is only used to
// (re-)sign forged packets; every case first proves with the pristine packet that this replica matches the code under test
// (the pristine signature verifies against it) — otherwise the case is discarded as "harness outdated".
func signedMessage(beaconID string, packet *pdkg.GossipPacket, p *pdkg.ProposalTerms) []byte {
	var ret bytes.Buffer
	ret.WriteString("beaconID:" + beaconID + "\n")
	switch t := packet.Packet.(type) {
	case *pdkg.GossipPacket_Proposal:
		ret.WriteString("Proposal:")
		ret.WriteString(t.Proposal.GetBeaconID() + "\n")
		ret.Write(binary.LittleEndian.AppendUint32([]byte{}, t.Proposal.GetEpoch()))
		ret.WriteString("\nLeader:" + t.Proposal.GetLeader().GetAddress() + "\n")
		ret.Write(t.Proposal.GetLeader().GetSignature())
	case *pdkg.GossipPacket_Accept:
		ret.WriteString("Accepted:" + t.Accept.GetAcceptor().GetAddress() + "\n")
	case *pdkg.GossipPacket_Reject:
		ret.WriteString("Rejected:" + t.Reject.GetRejector().GetAddress() + "\n")
	case *pdkg.GossipPacket_Abort:
		ret.WriteString("Aborted:" + t.Abort.GetReason() + "\n")
	case *pdkg.GossipPacket_Execute:
		enc, _ := t.Execute.GetTime().AsTime().MarshalBinary()
		ret.WriteString("Execute:")
		ret.Write(enc)
	}
	ret.WriteString("Proposal:\n")
	ret.WriteString(p.GetBeaconID() + "\n")
	ret.Write(binary.LittleEndian.AppendUint32([]byte{}, p.GetEpoch()))
	ret.WriteString("\nLeader:" + p.GetLeader().GetAddress() + "\n")
	ret.Write(p.GetLeader().GetSignature())
	ret.Write(binary.LittleEndian.AppendUint32([]byte{}, p.GetThreshold()))
	encTimeout, _ := p.GetTimeout().AsTime().MarshalBinary()
	ret.Write(encTimeout)
	ret.Write(binary.LittleEndian.AppendUint32([]byte{}, p.GetCatchupPeriodSeconds()))
	ret.Write(binary.LittleEndian.AppendUint32([]byte{}, p.GetBeaconPeriodSeconds()))
	ret.WriteString("\nScheme: " + p.GetSchemeID() + "\n")
	encGenesis, _ := p.GetGenesisTime().AsTime().MarshalBinary()
	ret.Write(encGenesis)
	for _, x := range p.GetJoining() {
		ret.WriteString("\nJoiner:" + x.GetAddress() + "\nSig:")
		ret.Write(x.GetSignature())
	}
	for _, x := range p.GetRemaining() {
		ret.WriteString("\nRemainer:" + x.GetAddress() + "\nSig:")
		ret.Write(x.GetSignature())
	}
	for _, x := range p.GetLeaving() {
		ret.WriteString("\nLeaver:" + x.GetAddress() + "\nSig:")
		ret.Write(x.GetSignature())
	}
	return ret.Bytes()
}

func signAs(pair *key.Pair, beaconID string, packet *pdkg.GossipPacket, terms *pdkg.ProposalTerms, claimedAddr string) *pdkg.GossipMetadata {
	sig, err := pair.Scheme().AuthScheme.Sign(pair.Key, signedMessage(beaconID, packet, terms))
	if err != nil {
		panic(err)
	}
	return &pdkg.GossipMetadata{BeaconID: beaconID, Address: claimedAddr, Signature: sig}
}

func stateBytes(n *Node) string {
	var out []string
	for _, get := range []func() (interface{ TOML() any }, error){} {
		_ = get
	}
	cur, err1 := n.Current()
	fin, err2 := n.Finished()
	enc := func(x any) string {
		var b bytes.Buffer
		_ = toml.NewEncoder(&b).Encode(x)
		return b.String()
	}
	if err1 == nil && cur != nil {
		out = append(out, "current:"+enc(cur.TOML()))
	} else {
		out = append(out, fmt.Sprintf("current-err:%v", err1))
	}
	if err2 == nil && fin != nil {
		out = append(out, "finished:"+enc(fin.TOML()))
	} else {
		out = append(out, fmt.Sprintf("finished:%v/%v", fin == nil, err2))
	}
	return strings.Join(out, "\n")
}

// c09World is a resharing about to happen: epoch-1 group (leader L, members, one leaver), one joiner, one outsider.
type c09World struct {
	rejector *Node // a member that has rejected the open proposal (accept-after-reject cases)
	bus      *Bus
	prev     *fx.Net
	old      []*Node // epoch-1 members; old[0] = leader
	leader   *Node
	members  []*Node // remaining non-leader members
	leaver   *Node
	joiner   *Node
	outsider *key.Pair
	terms    *pdkg.ProposalTerms
	proposal *pdkg.GossipPacket
}

func newC09World(seed uint64, scheme string, withLeaver bool) (*c09World, error) {
	w := &c09World{bus: NewBus()}
	n0 := 4
	w.prev = fx.NewNet(seed, fx.Opts{Scheme: scheme, N: n0, T: 3, Period: 30 * time.Second, Catchup: time.Second, Genesis: time.Now().Add(-100 * time.Second).Unix(), BeaconID: "c09", BasePort: 33000})
	old, err := FastForward(w.bus, w.prev, 1, "c09", false)
	if err != nil {
		return nil, err
	}
	w.old = old
	w.leader = old[0]
	if withLeaver {
		w.leaver = old[n0-1]
		w.members = old[1 : n0-1]
	} else {
		w.members = old[1:]
	}
	sch := fx.Scheme(scheme)
	w.joiner, err = w.bus.AddNode(fx.Pair(seed, "c09-joiner", "127.0.0.1:33500", sch), "c09", false)
	if err != nil {
		return nil, err
	}
	w.outsider = fx.Pair(seed, "c09-outsider", "127.0.0.1:33900", sch)
	return w, nil
}

// capture runs f with an interceptor that records (and swallows) every gossip packet of the given kind; returns the first.
func (w *c09World) capture(kind string, f func() error) (*pdkg.GossipPacket, error) {
	var got *pdkg.GossipPacket
	var lastSeen time.Time
	var mu sync.Mutex
	w.bus.Intercept = func(m *Msg, p *pdkg.GossipPacket) *pdkg.GossipPacket {
		if m.Kind == kind {
			mu.Lock()
			if got == nil {
				got = proto.Clone(p).(*pdkg.GossipPacket)
			}
			lastSeen = time.Now()
			mu.Unlock()
			return nil
		}
		return p
	}
	err := f()
	// the gossip goroutines run on their own: wait for the packet (on a busy machine they can be late), then a little longer
	// so that the copies for the other recipients are swallowed as well
	for i := 0; i < 600; i++ {
		mu.Lock()
		ok := got != nil
		mu.Unlock()
		if ok || err != nil && i > 40 {
			break
		}
		time.Sleep(5 * time.Millisecond)
	}
	// the sender gossips to every recipient from goroutines of its own: keep swallowing until none of its copies has shown up
	// for 150 ms and nothing is being delivered (a copy that slipped through later would change the victim behind our back)
	for i := 0; i < 600; i++ {
		mu.Lock()
		quiet := got == nil || time.Since(lastSeen) > 150*time.Millisecond
		mu.Unlock()
		if quiet && w.bus.InFlight.Load() == 0 {
			break
		}
		time.Sleep(5 * time.Millisecond)
	}
	w.bus.Intercept = nil
	mu.Lock()
	defer mu.Unlock()
	return got, err
}

func (w *c09World) remaining() []*Node { return append([]*Node{w.leader}, w.members...) }

func (w *c09World) propose() error {
	var leaving []*pdkg.Participant
	if w.leaver != nil {
		leaving = []*pdkg.Participant{w.leaver.Part}
	}
	p, err := w.capture("gossip:proposal", func() error {
		return w.leader.Reshare(3, 1, time.Now().Add(60*time.Second), []*pdkg.Participant{w.joiner.Part}, partsOf(w.remaining()), leaving)
	})
	if p == nil {
		return fmt.Errorf("no proposal captured: %v", err)
	}
	w.proposal = p
	w.terms = p.GetProposal()
	return nil
}

func deliver(n *Node, p *pdkg.GossipPacket) error {
	_, err := n.bus.safePacket(n.Proc, proto.Clone(p).(*pdkg.GossipPacket))
	return err
}

type forged struct {
	name   string
	packet *pdkg.GossipPacket
	// exempt says the statement does not require rejection for this victim (fresh joiner trusting keys in the packet)
	exempt bool
	signed bool // built with the harness's replica of the signed message (unusable when that replica is outdated)
}

func cloneP(p *pdkg.GossipPacket) *pdkg.GossipPacket { return proto.Clone(p).(*pdkg.GossipPacket) }

func flip(b []byte) []byte {
	c := append([]byte(nil), b...)
	if len(c) == 0 {
		return []byte{1}
	}
	c[len(c)/2] ^= 0x04
	return c
}

// proposalForgeries derives packets from a pristine proposal (every single-field mutation keeps the original signature).
func (w *c09World) proposalForgeries(victim *Node) []forged {
	var out []forged
	mut := func(name string, f func(t *pdkg.ProposalTerms, md *pdkg.GossipMetadata)) {
		p := cloneP(w.proposal)
		f(p.GetProposal(), p.Metadata)
		out = append(out, forged{name: "mutate/" + name, packet: p})
	}
	mut("epoch+1", func(t *pdkg.ProposalTerms, _ *pdkg.GossipMetadata) { t.Epoch++ })
	mut("threshold+1", func(t *pdkg.ProposalTerms, _ *pdkg.GossipMetadata) { t.Threshold++ })
	mut("threshold-1", func(t *pdkg.ProposalTerms, _ *pdkg.GossipMetadata) { t.Threshold-- })
	mut("timeout+1s", func(t *pdkg.ProposalTerms, _ *pdkg.GossipMetadata) {
		t.Timeout = timestamppb.New(t.Timeout.AsTime().Add(time.Second))
	})
	mut("catchup+1", func(t *pdkg.ProposalTerms, _ *pdkg.GossipMetadata) { t.CatchupPeriodSeconds++ })
	mut("period+1", func(t *pdkg.ProposalTerms, _ *pdkg.GossipMetadata) { t.BeaconPeriodSeconds++ })
	mut("scheme", func(t *pdkg.ProposalTerms, _ *pdkg.GossipMetadata) {
		for _, s := range fx.SchemeNames {
			if s != t.SchemeID {
				t.SchemeID = s
				return
			}
		}
	})
	mut("genesis-time+1s", func(t *pdkg.ProposalTerms, _ *pdkg.GossipMetadata) {
		t.GenesisTime = timestamppb.New(t.GenesisTime.AsTime().Add(time.Second))
	})
	mut("genesis-seed-flipped", func(t *pdkg.ProposalTerms, _ *pdkg.GossipMetadata) { t.GenesisSeed = flip(t.GenesisSeed) })
	mut("beacon-id", func(t *pdkg.ProposalTerms, _ *pdkg.GossipMetadata) { t.BeaconID += "x" })
	mut("leader-address", func(t *pdkg.ProposalTerms, _ *pdkg.GossipMetadata) {
		t.Leader = proto.Clone(t.Leader).(*pdkg.Participant)
		t.Leader.Address = "127.0.0.1:1"
	})
	mut("leader-swapped-for-member", func(t *pdkg.ProposalTerms, _ *pdkg.GossipMetadata) { t.Leader = w.members[0].Part })
	mut("remainer-address", func(t *pdkg.ProposalTerms, _ *pdkg.GossipMetadata) {
		t.Remaining[len(t.Remaining)-1].Address = "127.0.0.1:2"
	})
	mut("remainer-signature", func(t *pdkg.ProposalTerms, _ *pdkg.GossipMetadata) {
		t.Remaining[len(t.Remaining)-1].Signature = flip(t.Remaining[len(t.Remaining)-1].Signature)
	})
	mut("joiner-signature", func(t *pdkg.ProposalTerms, _ *pdkg.GossipMetadata) {
		t.Joining[0].Signature = flip(t.Joining[0].Signature)
	})
	mut("joiner-key", func(t *pdkg.ProposalTerms, _ *pdkg.GossipMetadata) {
		t.Joining[0].Key = w.outsider.Public.ToProto().Key
	})
	// the key of a remaining member other than the victim and the sender: an existing member must hold it against its own group record
	other := w.members[len(w.members)-1]
	if other == victim && len(w.members) > 1 {
		other = w.members[0]
	}
	if other != victim {
		p := cloneP(w.proposal)
		for _, r := range p.GetProposal().Remaining {
			if r.Address == other.Addr {
				r.Key = w.outsider.Public.ToProto().Key
			}
		}
		out = append(out, forged{name: "mutate/other-remainer-key-substituted", packet: p, exempt: victim == w.joiner})
	}
	mut("drop-remainer", func(t *pdkg.ProposalTerms, _ *pdkg.GossipMetadata) { t.Remaining = t.Remaining[:len(t.Remaining)-1] })
	mut("reorder-remaining", func(t *pdkg.ProposalTerms, _ *pdkg.GossipMetadata) {
		t.Remaining[0], t.Remaining[len(t.Remaining)-1] = t.Remaining[len(t.Remaining)-1], t.Remaining[0]
	})
	mut("joiner-listed-as-remainer", func(t *pdkg.ProposalTerms, _ *pdkg.GossipMetadata) {
		t.Remaining = append(t.Remaining, t.Joining[0])
		t.Joining = nil
	})
	mut("add-outsider-joiner", func(t *pdkg.ProposalTerms, _ *pdkg.GossipMetadata) {
		t.Joining = append(t.Joining, &pdkg.Participant{Address: w.outsider.Public.Addr, Key: w.outsider.Public.ToProto().Key, Signature: w.outsider.Public.Signature})
	})
	mut("metadata-address", func(_ *pdkg.ProposalTerms, md *pdkg.GossipMetadata) { md.Address = w.members[0].Addr })
	mut("metadata-beacon-id", func(_ *pdkg.ProposalTerms, md *pdkg.GossipMetadata) { md.BeaconID += "x" })
	mut("signature-flipped", func(_ *pdkg.ProposalTerms, md *pdkg.GossipMetadata) { md.Signature = flip(md.Signature) })
	mut("signature-truncated", func(_ *pdkg.ProposalTerms, md *pdkg.GossipMetadata) {
		md.Signature = md.Signature[:len(md.Signature)/2]
	})

	// re-signing of the unchanged content by keys other than the leader's, still claiming to come from the leader
	resign := func(name string, signer *key.Pair) {
		p := cloneP(w.proposal)
		p.Metadata = signAs(signer, "c09", p, p.GetProposal(), w.leader.Addr)
		out = append(out, forged{name: "resign/" + name, packet: p, signed: true})
	}
	resign("by-other-member", w.members[0].Pair)
	if w.leaver != nil {
		resign("by-leaver", w.leaver.Pair)
	}
	resign("by-joiner", w.joiner.Pair)
	resign("by-outsider", w.outsider)

	// substitution: the leader's key inside the participant lists is replaced by the attacker's and the attacker signs
	{
		p := cloneP(w.proposal)
		t := p.GetProposal()
		ak := w.outsider.Public.ToProto().Key
		t.Leader = proto.Clone(t.Leader).(*pdkg.Participant)
		t.Leader.Key = ak
		for _, r := range t.Remaining {
			if r.Address == w.leader.Addr {
				r.Key = ak
			}
		}
		p.Metadata = signAs(w.outsider, "c09", p, t, w.leader.Addr)
		out = append(out, forged{name: "substitute/leader-key-replaced-by-attacker", packet: p, exempt: victim == w.joiner, signed: true})
	}
	// smuggling: the genuine lists are kept, and a second entry with the leader's ADDRESS but the attacker's key is added
	// (to the joiners, whose keys a member cannot check against its group record, or at the end of the remainers); the attacker
	// signs claiming to be the leader. The sender's key must be taken from the genuine entry.
	for _, where := range []string{"joining", "remaining-tail", "joining-head", "remaining-head", "leaving",
		"joining+leader-entry", "remaining-head+leader-entry", "remaining-tail+leader-entry"} {
		p := cloneP(w.proposal)
		t := p.GetProposal()
		dup := &pdkg.Participant{Address: w.leader.Addr, Key: w.outsider.Public.ToProto().Key, Signature: w.outsider.Public.Signature}
		variant := where
		if strings.HasSuffix(where, "+leader-entry") {
			// the attacker is free to write all terms: the leader entry carries its key as well, and the threshold fits the longer list
			where = strings.TrimSuffix(where, "+leader-entry")
			t.Leader = dup
			total := len(t.Remaining) + len(t.Joining) + 1
			if min := uint32(total/2 + 1); t.Threshold < min {
				t.Threshold = min
			}
		}
		switch where {
		case "joining":
			t.Joining = append(t.Joining, dup)
		case "joining-head":
			t.Joining = append([]*pdkg.Participant{dup}, t.Joining...)
		case "remaining-head":
			t.Remaining = append([]*pdkg.Participant{dup}, t.Remaining...)
		case "leaving":
			t.Leaving = append([]*pdkg.Participant{dup}, t.Leaving...)
		default:
			t.Remaining = append(t.Remaining, dup)
		}
		p.Metadata = signAs(w.outsider, "c09", p, t, w.leader.Addr)
		out = append(out, forged{name: "smuggle/leader-address-with-attacker-key-in-" + variant, packet: p, exempt: victim == w.joiner, signed: true})
	}
	// entitlement: a non-leader member proposes in its own name with its own valid signature, naming itself leader while the real
	// leader stays a remainer (legal shape) -> allowed by the protocol (anybody remaining may lead): NOT a forgery, skipped.
	// entitlement: a member signs (validly, as itself) a proposal that names the real leader as leader
	{
		p := cloneP(w.proposal)
		p.Metadata = signAs(w.members[0].Pair, "c09", p, p.GetProposal(), w.members[0].Addr)
		out = append(out, forged{name: "entitlement/member-sends-leaders-proposal", packet: p, signed: true})
	}
	return out
}

// replicaOutdated is set when the harness's replica of the signed message no longer matches the code under test.
var replicaOutdated atomic.Value

func unsignedOnly(all []forged) []forged {
	var out []forged
	for _, f := range all {
		if !f.signed {
			out = append(out, f)
		}
	}
	return out
}

func failIfReplicaOutdated(t *testing.T) {
	if v := replicaOutdated.Load(); v != nil {
		t.Fatalf("HARNESS OUTDATED: the signed-message replica no longer matches the code under test (%v); only signature-keeping mutations were tried", v)
	}
}

func TestC09Proposal(t *testing.T) {
	rec := stats.Open(t, "C09")
	defer failIfReplicaOutdated(t)
	rapid.Check(t, func(rt *rapid.T) {
		scheme := rapid.SampledFrom(fx.SchemeNames).Draw(rt, "scheme")
		seed := rapid.Uint64Range(1, 1<<32).Draw(rt, "keyseed")
		withLeaver := rapid.Bool().Draw(rt, "leaver")
		victimKind := rapid.SampledFrom([]string{"member", "joiner", "leaver"}).Draw(rt, "victim")
		if victimKind == "leaver" && !withLeaver {
			victimKind = "member"
		}
		defer Watchdog("c09", 120*time.Second)()
		w, err := newC09World(seed, scheme, withLeaver)
		if err != nil {
			rt.Fatalf("world: %v", err)
		}
		defer w.bus.CloseAll()
		if err := w.propose(); err != nil {
			rt.Fatalf("harness: %v", err)
		}
		var victim *Node
		switch victimKind {
		case "member":
			victim = w.members[rapid.IntRange(0, len(w.members)-1).Draw(rt, "which")]
		case "joiner":
			victim = w.joiner
		default:
			victim = w.leaver
		}
		// the replica of the signed message must match the code under test: the pristine signature verifies against it
		sch := fx.Scheme(scheme)
		all := w.proposalForgeries(victim)
		if err := sch.AuthScheme.Verify(w.leader.Pair.Public.Key, signedMessage("c09", w.proposal, w.terms), w.proposal.Metadata.Signature); err != nil {
			// only the mutations that keep the original signature can be tried; the run ends as "could not run" unless one of them is accepted
			replicaOutdated.Store(fmt.Sprintf("proposal: %v", err))
			all = unsignedOnly(all)
		}
		pick := rapid.IntRange(0, len(all)-1).Draw(rt, "forgery")
		f := all[pick]
		desc := fmt.Sprintf("proposal %s victim=%s(%s) leaver=%v forgery=%s", scheme, victimKind, victim.Addr, withLeaver, f.name)
		before := stateBytes(victim)
		tapBefore := len(w.bus.Tap)
		derr := deliver(victim, f.packet)
		time.Sleep(5 * time.Millisecond)
		after := stateBytes(victim)
		regossip := 0
		w.bus.mu.Lock()
		for _, m := range w.bus.Tap[tapBefore:] {
			if m.From == victim.Addr {
				regossip++
			}
		}
		w.bus.mu.Unlock()
		accepted := derr == nil
		if !f.exempt {
			if accepted {
				rec.Violation(rt, "C09/forged-packet-accepted/"+f.name, fmt.Sprintf("the %s accepted a forged proposal (%s) || case: %s", victimKind, f.name, desc), map[string]any{"case": desc})
			} else if after != before {
				rec.Violation(rt, "C09/rejected-packet-changed-state", fmt.Sprintf("the %s rejected the packet (%v) but its DKG records changed || case: %s", victimKind, derr, desc), map[string]any{"case": desc, "before": before, "after": after})
			} else if regossip > 0 {
				rec.Violation(rt, "C09/rejected-packet-regossiped", fmt.Sprintf("the %s rejected the packet but gossiped %d messages || case: %s", victimKind, regossip, desc), nil)
			}
		}
		// pristine twin: the untouched packet is accepted by the same victim afterwards (anti-vacuity; also shows the rejected one left it usable)
		if !accepted {
			if perr := deliver(victim, w.proposal); perr != nil {
				rt.Fatalf("harness: pristine proposal refused by the %s after the forgery was refused: %v || %s", victimKind, perr, desc)
			}
		}
		labels := []string{"proposal", "victim/" + victimKind, "forgery/" + f.name, fmt.Sprintf("accepted=%v", accepted)}
		if f.exempt {
			labels = append(labels, "exempt(joiner-trusts-packet-keys)")
		}
		rec.Case(desc+fmt.Sprintf(" seed=%d", seed), true, labels...)
	})
}

// prepare delivers the pristine proposal to everybody and brings members / joiner into the states from which accept, reject,
// execute and abort packets are meaningful.
func (w *c09World) prepare() error {
	for _, n := range append(append([]*Node{}, w.members...), w.joiner) {
		if err := deliver(n, w.proposal); err != nil {
			return fmt.Errorf("proposal refused by %s: %w", n.Addr, err)
		}
	}
	if w.leaver != nil {
		if err := deliver(w.leaver, w.proposal); err != nil {
			return fmt.Errorf("proposal refused by leaver: %w", err)
		}
	}
	return nil
}

type followUp struct {
	kind    string // accept | reject | execute | abort
	sender  *Node
	packet  *pdkg.GossipPacket
	victims map[string]*Node
}

func (w *c09World) makeFollowUp(kind string) (*followUp, error) {
	fu := &followUp{kind: kind, victims: map[string]*Node{}}
	swallow := func(f func() error, k string) (*pdkg.GossipPacket, error) { return w.capture("gossip:"+k, f) }
	switch kind {
	case "accept-after-reject":
		// one member rejects (everybody hears it); another member then accepts for itself, which is fine, or "for" the member
		// that rejected, which is not
		if len(w.members) < 2 {
			return nil, fmt.Errorf("needs two members")
		}
		fu.kind = "accept"
		w.rejector = w.members[0]
		if err := w.rejector.Reject(); err != nil {
			return nil, fmt.Errorf("reject: %w", err)
		}
		for i := 0; i < 200; i++ {
			time.Sleep(5 * time.Millisecond)
			if w.bus.InFlight.Load() == 0 && i > 10 {
				break
			}
		}
		fu.sender = w.members[1]
		p, err := swallow(fu.sender.Accept, "accept")
		if p == nil {
			return nil, fmt.Errorf("no accept captured after the reject: %v", err)
		}
		fu.packet = p
		fu.victims["leader"] = w.leader // the node that tallies acceptances and rejections
	case "accept", "reject":
		fu.sender = w.members[0]
		f := fu.sender.Accept
		if kind == "reject" {
			f = fu.sender.Reject
		}
		p, err := swallow(f, kind)
		if p == nil {
			return nil, fmt.Errorf("no %s captured: %v", kind, err)
		}
		fu.packet = p
		fu.victims["leader"] = w.leader
		if len(w.members) > 1 {
			fu.victims["member"] = w.members[1]
		}
		fu.victims["joiner"] = w.joiner
	case "execute", "abort":
		// members accept and the joiner joins first (their own gossip is swallowed), so that an execute is applicable to them
		for _, m := range w.members {
			if _, err := swallow(m.Accept, "accept"); err != nil {
				return nil, fmt.Errorf("accept: %w", err)
			}
		}
		if err := w.joiner.Join(GroupTOML(w.prev.Group)); err != nil {
			return nil, fmt.Errorf("join: %w", err)
		}
		fu.sender = w.leader
		f := w.leader.Execute
		if kind == "abort" {
			f = w.leader.Abort
		}
		p, err := swallow(f, kind)
		if p == nil {
			return nil, fmt.Errorf("no %s captured: %v", kind, err)
		}
		fu.packet = p
		fu.victims["member"] = w.members[0]
		fu.victims["joiner"] = w.joiner
	}
	return fu, nil
}

func (w *c09World) followUpForgeries(fu *followUp) []forged {
	var out []forged
	mut := func(name string, f func(p *pdkg.GossipPacket)) {
		p := cloneP(fu.packet)
		f(p)
		out = append(out, forged{name: fu.kind + "/mutate/" + name, packet: p})
	}
	resign := func(name string, signer *key.Pair, claimed string, f func(p *pdkg.GossipPacket)) {
		p := cloneP(fu.packet)
		if f != nil {
			f(p)
		}
		p.Metadata = signAs(signer, "c09", p, w.terms, claimed)
		out = append(out, forged{name: fu.kind + "/" + name, packet: p, signed: true})
	}
	// somebody else than the sender: another member if there is one, else the leader
	other := w.leader
	for _, m := range w.members {
		if m != fu.sender {
			other = m
			break
		}
	}
	mut("metadata-address", func(p *pdkg.GossipPacket) { p.Metadata.Address = other.Addr })
	mut("metadata-beacon-id", func(p *pdkg.GossipPacket) { p.Metadata.BeaconID += "x" })
	mut("signature-flipped", func(p *pdkg.GossipPacket) { p.Metadata.Signature = flip(p.Metadata.Signature) })
	mut("signature-truncated", func(p *pdkg.GossipPacket) { p.Metadata.Signature = p.Metadata.Signature[:len(p.Metadata.Signature)/2] })
	switch fu.kind {
	case "accept":
		mut("acceptor-swapped", func(p *pdkg.GossipPacket) { p.GetAccept().Acceptor = other.Part })
		// accepting for somebody else: `other` signs validly as itself, but the acceptor named is the original member
		resign("entitlement/accept-for-somebody-else", other.Pair, other.Addr, nil)
		if w.rejector != nil {
			resign("entitlement/accept-in-the-name-of-a-member-that-rejected", fu.sender.Pair, fu.sender.Addr, func(p *pdkg.GossipPacket) { p.GetAccept().Acceptor = w.rejector.Part })
		}
		resign("entitlement/accept-by-joiner", w.joiner.Pair, w.joiner.Addr, func(p *pdkg.GossipPacket) { p.GetAccept().Acceptor = w.joiner.Part })
		if w.leaver != nil {
			resign("entitlement/accept-by-leaver", w.leaver.Pair, w.leaver.Addr, func(p *pdkg.GossipPacket) { p.GetAccept().Acceptor = w.leaver.Part })
		}
	case "reject":
		mut("rejector-swapped", func(p *pdkg.GossipPacket) { p.GetReject().Rejector = other.Part })
		resign("entitlement/reject-for-somebody-else", other.Pair, other.Addr, nil)
		resign("entitlement/reject-by-joiner", w.joiner.Pair, w.joiner.Addr, func(p *pdkg.GossipPacket) { p.GetReject().Rejector = w.joiner.Part })
	case "execute":
		mut("time+1s", func(p *pdkg.GossipPacket) {
			p.GetExecute().Time = timestamppb.New(p.GetExecute().Time.AsTime().Add(time.Second))
		})
		resign("entitlement/execute-by-member", other.Pair, other.Addr, nil)
		resign("entitlement/execute-by-joiner", w.joiner.Pair, w.joiner.Addr, nil)
	case "abort":
		mut("reason", func(p *pdkg.GossipPacket) { p.GetAbort().Reason = "because" })
		resign("entitlement/abort-by-member", other.Pair, other.Addr, nil)
		resign("entitlement/abort-by-joiner", w.joiner.Pair, w.joiner.Addr, nil)
	}
	resign("resign/by-other-member-claiming-sender", other.Pair, fu.sender.Addr, nil)
	resign("resign/by-outsider-claiming-sender", w.outsider, fu.sender.Addr, nil)
	resign("resign/by-outsider-as-itself", w.outsider, w.outsider.Public.Addr, nil)
	if w.leaver != nil {
		resign("resign/by-leaver-claiming-sender", w.leaver.Pair, fu.sender.Addr, nil)
	}
	return out
}

func TestC09FollowUps(t *testing.T) {
	rec := stats.Open(t, "C09")
	defer failIfReplicaOutdated(t)
	rapid.Check(t, func(rt *rapid.T) {
		scheme := rapid.SampledFrom(fx.SchemeNames).Draw(rt, "scheme")
		seed := rapid.Uint64Range(1, 1<<32).Draw(rt, "keyseed")
		withLeaver := rapid.Bool().Draw(rt, "leaver")
		kind := rapid.SampledFrom([]string{"accept", "reject", "execute", "abort", "accept-after-reject"}).Draw(rt, "packet")
		defer Watchdog("c09f", 120*time.Second)()
		w, err := newC09World(seed, scheme, withLeaver)
		if err != nil {
			rt.Fatalf("world: %v", err)
		}
		defer w.bus.CloseAll()
		if err := w.propose(); err != nil {
			rt.Fatalf("harness: %v", err)
		}
		if err := w.prepare(); err != nil {
			rt.Fatalf("harness: %v", err)
		}
		fu, err := w.makeFollowUp(kind)
		if err != nil {
			rt.Fatalf("harness: %v", err)
		}
		sch := fx.Scheme(scheme)
		replicaOK := true
		if err := sch.AuthScheme.Verify(fu.sender.Pair.Public.Key, signedMessage("c09", fu.packet, w.terms), fu.packet.Metadata.Signature); err != nil {
			replicaOutdated.Store(fmt.Sprintf("%s: %v", kind, err))
			replicaOK = false
		}
		var vnames []string
		for k := range fu.victims {
			vnames = append(vnames, k)
		}
		sortStrings(vnames)
		vk := rapid.SampledFrom(vnames).Draw(rt, "victim")
		victim := fu.victims[vk]
		all := w.followUpForgeries(fu)
		if !replicaOK {
			all = unsignedOnly(all)
		}
		f := all[rapid.IntRange(0, len(all)-1).Draw(rt, "forgery")]
		desc := fmt.Sprintf("%s %s victim=%s(%s) leaver=%v forgery=%s", kind, scheme, vk, victim.Addr, withLeaver, f.name)
		before := stateBytes(victim)
		derr := deliver(victim, f.packet)
		time.Sleep(5 * time.Millisecond)
		after := stateBytes(victim)
		if derr == nil && after == before {
			// answered without an error but nothing was recorded: the packet was ignored, not accepted (a node that has heard a
			// rejection, for instance, no longer tallies acceptances)
			rec.Label("forged-follow-up-ignored-without-error")
		} else if derr == nil {
			rec.Violation(rt, "C09/forged-packet-accepted/"+f.name, fmt.Sprintf("the %s accepted a forged %s packet (%s): its DKG record changed || case: %s", vk, kind, f.name, desc), map[string]any{"case": desc, "before": before, "after": after})
		} else if after != before {
			rec.Violation(rt, "C09/rejected-packet-changed-state", fmt.Sprintf("the %s rejected the packet (%v) but its DKG records changed || case: %s", vk, derr, desc), map[string]any{"before": before, "after": after})
		}
		if derr != nil {
			if perr := deliver(victim, fu.packet); perr != nil {
				rt.Fatalf("harness: pristine %s refused by the %s after the forgery was refused: %v || %s", kind, vk, perr, desc)
			}
		}
		rec.Case(desc+fmt.Sprintf(" seed=%d", seed), true, kind, "victim/"+vk, "forgery/"+f.name)
	})
}

func sortStrings(s []string) {
	for i := 0; i < len(s); i++ {
		for j := i + 1; j < len(s); j++ {
			if s[j] < s[i] {
				s[i], s[j] = s[j], s[i]
			}
		}
	}
}

// TestC09KnownFindingReplay replays the listed finding's exact shape without the generator.
func TestC09KnownFindingReplay(t *testing.T) {
	rec := stats.Open(t, "C09")
	defer Watchdog("c09replay", 120*time.Second)()
	w, err := newC09World(11, fx.SchemeNames[0], false)
	if err != nil {
		t.Fatal(err)
	}
	defer w.bus.CloseAll()
	if err := w.propose(); err != nil {
		t.Fatal(err)
	}
	p := cloneP(w.proposal)
	p.GetProposal().GenesisSeed = flip(p.GetProposal().GenesisSeed)
	desc := "replay: proposal pedersen-bls-chained victim=joiner forgery=mutate/genesis-seed-flipped"
	if err := deliver(w.joiner, p); err == nil {
		rec.Violation(t, "C09/forged-packet-accepted/mutate/genesis-seed-flipped", "the joiner accepted a proposal whose genesis seed was altered after signing || case: "+desc, nil)
	} else {
		t.Logf("listed finding no longer reproduces: %v", err)
		rec.Label("known-finding-no-longer-reproduces")
	}
	rec.Case(desc, true, "known-finding-replay")
	rec.Case(desc+" (fixed replay case)", true, "known-finding-replay")
}
