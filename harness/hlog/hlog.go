// Package hlog is the harness implementation of drand's log.Logger: it can keep or scan every line (C15),
// and turns Fatal*/Panic* into a recorded event + runtime.Goexit instead of os.Exit, so a Fatal reachable
// from remote input is reported instead of silently killing the test binary.
package hlog

import (
	"fmt"
	"runtime"
	"strings"
	"sync"

	dlog "github.com/drand/drand/v2/common/log"
)

// Root is shared by all loggers derived from it.
type Root struct {
	mu     sync.Mutex
	Keep   bool
	lines  []string
	Fatals []string
	Sink   func(line string)
	count  int64
}

// New returns a root logger. keep stores every line in memory.
func New(keep bool) *Logger { return &Logger{root: &Root{Keep: keep}} }

// Discard returns a logger that drops lines (fatals are still recorded).
func Discard() *Logger { return New(false) }

// Logger implements dlog.Logger.
type Logger struct {
	root *Root
	name string
	kv   []interface{}
}

var _ dlog.Logger = (*Logger)(nil)

// Root returns the shared root.
func (l *Logger) Root() *Root { return l.root }

// Lines returns a copy of the kept lines.
func (r *Root) Lines() []string {
	r.mu.Lock()
	defer r.mu.Unlock()
	return append([]string(nil), r.lines...)
}

// FatalEvents returns recorded fatal/panic log events.
func (r *Root) FatalEvents() []string {
	r.mu.Lock()
	defer r.mu.Unlock()
	return append([]string(nil), r.Fatals...)
}

// Count returns the number of lines seen.
func (r *Root) Count() int64 {
	r.mu.Lock()
	defer r.mu.Unlock()
	return r.count
}

func (l *Logger) emit(level, msg string, keyvals []interface{}) string {
	r := l.root
	r.mu.Lock()
	r.count++
	need := r.Keep || r.Sink != nil || level == "FATAL" || level == "PANIC"
	sink := r.Sink
	r.mu.Unlock()
	if !need {
		return ""
	}
	var sb strings.Builder
	sb.WriteString(level)
	sb.WriteByte(' ')
	sb.WriteString(l.name)
	sb.WriteByte(' ')
	sb.WriteString(msg)
	for _, v := range l.kv {
		fmt.Fprintf(&sb, " %v", v)
	}
	for _, v := range keyvals {
		fmt.Fprintf(&sb, " %v", v)
		if _, isStr := v.(string); !isStr {
			if _, isErr := v.(error); !isErr {
				fmt.Fprintf(&sb, " %+v", v)
			}
		}
	}
	line := sb.String()
	if sink != nil {
		sink(line)
	}
	r.mu.Lock()
	if r.Keep {
		r.lines = append(r.lines, line)
	}
	if level == "FATAL" || level == "PANIC" {
		r.Fatals = append(r.Fatals, line)
	}
	r.mu.Unlock()
	return line
}

func (l *Logger) Info(kv ...interface{})  { l.emit("INFO", "", kv) }
func (l *Logger) Debug(kv ...interface{}) { l.emit("DEBUG", "", kv) }
func (l *Logger) Warn(kv ...interface{})  { l.emit("WARN", "", kv) }
func (l *Logger) Error(kv ...interface{}) { l.emit("ERROR", "", kv) }
func (l *Logger) Fatal(kv ...interface{}) { l.emit("FATAL", "", kv); runtime.Goexit() }
func (l *Logger) Panic(kv ...interface{}) { panic(l.emit("PANIC", "", kv)) }

func (l *Logger) Infow(msg string, kv ...interface{})  { l.emit("INFO", msg, kv) }
func (l *Logger) Debugw(msg string, kv ...interface{}) { l.emit("DEBUG", msg, kv) }
func (l *Logger) Warnw(msg string, kv ...interface{})  { l.emit("WARN", msg, kv) }
func (l *Logger) Errorw(msg string, kv ...interface{}) { l.emit("ERROR", msg, kv) }
func (l *Logger) Fatalw(msg string, kv ...interface{}) { l.emit("FATAL", msg, kv); runtime.Goexit() }
func (l *Logger) Panicw(msg string, kv ...interface{}) { panic(l.emit("PANIC", msg, kv)) }

func (l *Logger) With(args ...interface{}) dlog.Logger {
	return &Logger{root: l.root, name: l.name, kv: append(append([]interface{}{}, l.kv...), args...)}
}

func (l *Logger) Named(s string) dlog.Logger {
	n := s
	if l.name != "" {
		n = l.name + "." + s
	}
	return &Logger{root: l.root, name: n, kv: l.kv}
}

func (l *Logger) Name() string                        { return l.name }
func (l *Logger) AddCallerSkip(skip int) dlog.Logger { return l }
