// Package fx builds deterministic drand fixtures (keys, polynomials, groups, shares) for the checks.
// All key material is a pure function of the seed.
package fx

import (
	"crypto/aes"
	"crypto/cipher"
	"crypto/sha256"
	"encoding/binary"
	"fmt"
	"sync"
	"time"

	"github.com/drand/drand/v2/common/key"
	"github.com/drand/drand/v2/crypto"
	"github.com/drand/kyber"
	"github.com/drand/kyber/share"
	"github.com/drand/kyber/share/dkg"
	"golang.org/x/crypto/sha3"
)

// SchemeNames lists the five schemes in a fixed order.
var SchemeNames = []string{
	crypto.DefaultSchemeID, crypto.UnchainedSchemeID, crypto.SigsOnG1ID, crypto.ShortSigSchemeID, crypto.BN254UnchainedOnG1SchemeID,
}

var (
	schMu  sync.Mutex
	schMap = map[string]*crypto.Scheme{}
)

// Scheme returns a cached scheme object.
func Scheme(name string) *crypto.Scheme {
	schMu.Lock()
	defer schMu.Unlock()
	if s, ok := schMap[name]; ok {
		return s
	}
	s, err := crypto.SchemeFromName(name)
	if err != nil {
		panic(err)
	}
	schMap[name] = s
	return s
}

// Chained reports whether the scheme binds the previous signature.
func Chained(name string) bool { return name == crypto.DefaultSchemeID }

// Stream is a deterministic cipher.Stream derived from (seed, label).
func Stream(seed uint64, label string) cipher.Stream {
	h := sha256.New()
	_ = binary.Write(h, binary.BigEndian, seed)
	_, _ = h.Write([]byte(label))
	k := h.Sum(nil)
	blk, err := aes.NewCipher(k)
	if err != nil {
		panic(err)
	}
	iv := make([]byte, aes.BlockSize)
	return cipher.NewCTR(blk, iv)
}

// Bytes returns n deterministic bytes.
func Bytes(seed uint64, label string, n int) []byte {
	b := make([]byte, n)
	Stream(seed, label).XORKeyStream(b, b)
	return b
}

// Pair makes a deterministic self-signed key pair.
func Pair(seed uint64, label, addr string, sch *crypto.Scheme) *key.Pair {
	k := sch.KeyGroup.Scalar().Pick(Stream(seed, "pair/"+label))
	pub := sch.KeyGroup.Point().Mul(k, nil)
	p := &key.Pair{Key: k, Public: &key.Identity{Key: pub, Addr: addr, Scheme: sch}}
	if err := p.SelfSign(); err != nil {
		panic(err)
	}
	return p
}

// Net is one epoch of a drand network: a private polynomial held by the harness and everything derived from it.
type Net struct {
	Seed    uint64
	Scheme  *crypto.Scheme
	N, T    int
	Poly    *share.PriPoly
	Pub     *share.PubPoly
	Pairs   []*key.Pair  // by position
	Shares  []*key.Share // by position; Shares[i].Share.I == Group.Nodes[i].Index
	Group   *key.Group
	Indices []uint32
}

// Opts configures NewNet.
type Opts struct {
	Scheme   string
	N, T     int
	Period   time.Duration
	Catchup  time.Duration
	Genesis  int64
	BeaconID string
	BasePort int
	// Indices optionally assigns non-contiguous DKG indices (len N); default 0..N-1.
	Indices []uint32
}

// NewNet builds epoch 1 from the seed.
func NewNet(seed uint64, o Opts) *Net {
	sch := Scheme(o.Scheme)
	if o.BasePort == 0 {
		o.BasePort = 20000
	}
	pairs := make([]*key.Pair, o.N)
	for i := range pairs {
		pairs[i] = Pair(seed, fmt.Sprintf("node%d", i), fmt.Sprintf("127.0.0.1:%d", o.BasePort+i), sch)
	}
	secret := sch.KeyGroup.Scalar().Pick(Stream(seed, "secret"))
	poly := share.NewPriPoly(sch.KeyGroup, o.T, secret, Stream(seed, "poly"))
	n := &Net{Seed: seed, Scheme: sch, N: o.N, T: o.T, Poly: poly, Pairs: pairs}
	idx := o.Indices
	if idx == nil {
		idx = make([]uint32, o.N)
		for i := range idx {
			idx[i] = uint32(i)
		}
	}
	n.Indices = idx
	n.finish(o, 0, nil)
	return n
}

func (n *Net) finish(o Opts, transition int64, genesisSeed []byte) {
	sch := n.Scheme
	n.Pub = n.Poly.Commit(sch.KeyGroup.Point().Base())
	_, commits := n.Pub.Info()
	nodes := make([]*key.Node, n.N)
	n.Shares = make([]*key.Share, n.N)
	for i := 0; i < n.N; i++ {
		nodes[i] = &key.Node{Identity: n.Pairs[i].Public, Index: n.Indices[i]}
		n.Shares[i] = &key.Share{
			DistKeyShare: dkg.DistKeyShare{Commits: commits, Share: n.Poly.Eval(int(n.Indices[i]))},
			Scheme:       sch,
		}
	}
	g := &key.Group{
		Threshold: n.T, Period: o.Period, Scheme: sch, ID: o.BeaconID, CatchupPeriod: o.Catchup,
		Nodes: nodes, GenesisTime: o.Genesis, TransitionTime: transition,
		PublicKey: &key.DistPublic{Coefficients: commits},
	}
	if genesisSeed != nil {
		g.GenesisSeed = genesisSeed
	} else {
		g.GetGenesisSeed()
	}
	n.Group = g
}

// ReshareOpts describes the next epoch.
type ReshareOpts struct {
	Keep       []int // positions of the current epoch that remain
	Add        int   // number of joiners
	T          int
	Transition int64
	Label      string
}

// Reshare synthesises the next epoch: a fresh polynomial of degree T-1 with the same constant term.
// Remainers keep their index; joiners get fresh indices above every index used so far.
func (n *Net) Reshare(r ReshareOpts) *Net {
	sch := n.Scheme
	poly := share.NewPriPoly(sch.KeyGroup, r.T, n.Poly.Secret(), Stream(n.Seed, "poly/"+r.Label))
	m := &Net{Seed: n.Seed, Scheme: sch, T: r.T, Poly: poly}
	maxIdx := uint32(0)
	for _, ix := range n.Indices {
		if ix+1 > maxIdx {
			maxIdx = ix + 1
		}
	}
	for _, k := range r.Keep {
		m.Pairs = append(m.Pairs, n.Pairs[k])
		m.Indices = append(m.Indices, n.Indices[k])
	}
	for j := 0; j < r.Add; j++ {
		port := 21000 + int(maxIdx) + j
		m.Pairs = append(m.Pairs, Pair(n.Seed, fmt.Sprintf("joiner/%s/%d", r.Label, j), fmt.Sprintf("127.0.0.1:%d", port), sch))
		m.Indices = append(m.Indices, maxIdx+uint32(j))
	}
	m.N = len(m.Pairs)
	m.finish(Opts{Period: n.Group.Period, Catchup: n.Group.CatchupPeriod, Genesis: n.Group.GenesisTime, BeaconID: n.Group.ID}, r.Transition, n.Group.GetGenesisSeed())
	return m
}

// Digest returns the message signed for (round, prev) under the net's scheme, computed by the harness's own
// reference (RefDigest), not by the code under test.
func (n *Net) Digest(round uint64, prev []byte) []byte {
	return RefDigest(n.Scheme.Name, round, prev)
}

// RepoDigest is the digest as computed by the code under test.
func (n *Net) RepoDigest(round uint64, prev []byte) []byte {
	return n.Scheme.DigestBeacon(&hb{round, prev})
}

// RefDigest is the harness's own statement of what each scheme signs: chained = sha256(prev || round_be64),
// unchained = sha256(round_be64), bn254 = keccak256(round_be64).
func RefDigest(scheme string, round uint64, prev []byte) []byte {
	var rb [8]byte
	binary.BigEndian.PutUint64(rb[:], round)
	switch scheme {
	case crypto.DefaultSchemeID:
		h := sha256.New()
		_, _ = h.Write(prev)
		_, _ = h.Write(rb[:])
		return h.Sum(nil)
	case crypto.BN254UnchainedOnG1SchemeID:
		h := sha3.NewLegacyKeccak256()
		_, _ = h.Write(rb[:])
		return h.Sum(nil)
	default:
		h := sha256.Sum256(rb[:])
		return h[:]
	}
}

// VerifyRef verifies a beacon with the reference digest and kyber's threshold scheme under pk.
func VerifyRef(sch *crypto.Scheme, pk kyber.Point, round uint64, sig, prev []byte) error {
	return sch.ThresholdScheme.VerifyRecovered(pk, RefDigest(sch.Name, round, prev), sig)
}

type hb struct {
	r uint64
	p []byte
}

func (h *hb) GetPreviousSignature() []byte { return h.p }
func (h *hb) GetRound() uint64             { return h.r }

// Partial signs (round, prev) with the share at position pos.
func (n *Net) Partial(pos int, round uint64, prev []byte) []byte {
	sig, err := n.Scheme.ThresholdScheme.Sign(n.Shares[pos].PrivateShare(), n.Digest(round, prev))
	if err != nil {
		panic(err)
	}
	return sig
}

// Sign produces the full group signature for (round, prev) directly from the secret; fx_test checks that this
// equals the signature recovered from t partials.
func (n *Net) Sign(round uint64, prev []byte) []byte {
	s, err := n.Scheme.AuthScheme.Sign(n.Poly.Secret(), n.Digest(round, prev))
	if err != nil {
		panic(err)
	}
	return s
}

// SignByRecovery recovers the group signature from the first t partials.
func (n *Net) SignByRecovery(round uint64, prev []byte) []byte {
	sigs := make([][]byte, 0, n.T)
	for i := 0; i < n.T; i++ {
		sigs = append(sigs, n.Partial(i, round, prev))
	}
	s, err := n.Scheme.ThresholdScheme.Recover(n.Pub, n.Digest(round, prev), sigs, n.T, n.N)
	if err != nil {
		panic(err)
	}
	return s
}

// PublicKey returns the distributed public key point.
func (n *Net) PublicKey() kyber.Point { return n.Pub.Commit() }
