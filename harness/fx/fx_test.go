package fx

import (
	"bytes"
	"testing"
	"time"

	"github.com/drand/drand/v2/common"
)

func TestFixtureSanity(t *testing.T) {
	for _, sn := range SchemeNames {
		n := NewNet(7, Opts{Scheme: sn, N: 4, T: 3, Period: 3 * time.Second, Catchup: time.Second, Genesis: 1000, BeaconID: "x"})
		prev := []byte("prev")
		a, b := n.Sign(5, prev), n.SignByRecovery(5, prev)
		if !bytes.Equal(a, b) {
			t.Fatalf("%s: direct signature differs from recovered", sn)
		}
		if err := n.Scheme.VerifyBeacon(&common.Beacon{Round: 5, Signature: a, PreviousSig: prev}, n.PublicKey()); err != nil {
			t.Fatalf("%s: %v", sn, err)
		}
		if !bytes.Equal(n.Digest(5, prev), n.RepoDigest(5, prev)) {
			t.Fatalf("%s: reference digest differs from the repository's", sn)
		}
		m := n.Reshare(ReshareOpts{Keep: []int{0, 2, 3}, Add: 2, T: 4, Transition: 2000, Label: "e2"})
		if !m.PublicKey().Equal(n.PublicKey()) {
			t.Fatalf("reshare changed key")
		}
		c := m.SignByRecovery(5, prev)
		if !bytes.Equal(a, c) {
			t.Fatalf("%s: reshared group signs differently", sn)
		}
		for i, s := range m.Shares {
			if !m.Pub.Check(s.PrivateShare()) || uint32(s.Share.I) != m.Group.Nodes[i].Index {
				t.Fatalf("share mismatch")
			}
		}
		n2 := NewNet(7, Opts{Scheme: sn, N: 4, T: 3, Period: 3 * time.Second, Catchup: time.Second, Genesis: 1000, BeaconID: "x"})
		if !bytes.Equal(n2.Group.Hash(), n.Group.Hash()) {
			t.Fatalf("not deterministic")
		}
	}
}
