// Package secretscan looks for secret scalars in byte strings under the encodings a leak could plausibly use (C15).
package secretscan

import (
	"bytes"
	"encoding/base64"
	"encoding/hex"
	"fmt"
	"strings"
)

// Secret is one secret scalar with a label.
type Secret struct {
	Label string
	Raw   []byte // canonical big-endian marshalling
	Str   string // the scalar's String() rendering, if any
	pats  [][]byte
}

// New prepares the search patterns.
func New(label string, raw []byte, str string) *Secret {
	s := &Secret{Label: label, Raw: raw, Str: str}
	rev := make([]byte, len(raw))
	for i := range raw {
		rev[len(raw)-1-i] = raw[i]
	}
	add := func(b []byte) {
		if len(b) >= 16 {
			s.pats = append(s.pats, b)
		}
	}
	for _, r := range [][]byte{raw, rev} {
		add(r)
		add([]byte(hex.EncodeToString(r)))
		add([]byte(strings.ToUpper(hex.EncodeToString(r))))
		add([]byte(base64.StdEncoding.EncodeToString(r)))
		add([]byte(base64.RawStdEncoding.EncodeToString(r)))
		add([]byte(base64.URLEncoding.EncodeToString(r)))
		add([]byte(base64.RawURLEncoding.EncodeToString(r)))
	}
	if len(str) >= 16 {
		add([]byte(str))
	}
	// decimal rendering of the byte slice as Go prints it with %v ("[12 255 ...]")
	add([]byte(strings.Trim(fmt.Sprint(raw), "[]")))
	return s
}

// Find returns the label of the first secret found in data, or "".
func Find(data []byte, secrets []*Secret) string {
	for _, s := range secrets {
		for _, p := range s.pats {
			if bytes.Contains(data, p) {
				return s.Label
			}
		}
	}
	return ""
}
