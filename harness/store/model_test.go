package store

import (
	"bytes"
	"context"
	"errors"
	"fmt"
	"os"
	"sort"

	"github.com/drand/drand/v2/common"
	"github.com/drand/drand/v2/internal/chain"
	"github.com/drand/drand/v2/internal/chain/boltdb"
	"github.com/drand/drand/v2/internal/chain/memdb"
	"github.com/drand/drand/v2/verifharness/hlog"
)

// backend kinds
const (
	kTrimmed = iota
	kTrimmedPrev
	kUntrimmed
	kUntrimmedPrev
	kMem
	kMemFull // ring of capacity 10 pre-filled with 10 lower rounds, so every new round evicts the oldest
	nKinds
)

var kindNames = []string{"bolt-trimmed", "bolt-trimmed+prev", "bolt-untrimmed", "bolt-untrimmed+prev", "memdb10", "memdb10-full"}

const memCap = 10

type entry struct{ sig, prev []byte }

// sut couples the store under test with the reference map.
type sut struct {
	kind   int
	dir    string
	ctx    context.Context
	st     chain.Store
	m      map[uint64]entry
	serial int
}

func isBolt(k int) bool     { return k <= kUntrimmedPrev }
func isTrimmed(k int) bool  { return k == kTrimmed || k == kTrimmedPrev }
func needsPrev(k int) bool  { return k == kTrimmedPrev }
func isMem(k int) bool      { return k == kMem || k == kMemFull }
func sigFor(r uint64, v int) []byte { return []byte(fmt.Sprintf("sig-r%d-v%d", r, v)) }

func openSUT(kind int, scratch string) (*sut, error) {
	s := &sut{kind: kind, m: map[uint64]entry{}}
	s.ctx = context.Background()
	if kind == kTrimmedPrev || kind == kUntrimmedPrev {
		s.ctx = chain.SetPreviousRequiredOnContext(s.ctx)
	}
	if kind == kUntrimmed || kind == kUntrimmedPrev {
		s.ctx = boltdb.IsATest(s.ctx)
	}
	if isBolt(kind) {
		d, err := os.MkdirTemp(scratch, "bolt")
		if err != nil {
			return nil, err
		}
		s.dir = d
	}
	return s, s.open()
}

func (s *sut) open() error {
	if isBolt(s.kind) {
		st, err := boltdb.NewBoltStore(s.ctx, hlog.Discard(), s.dir)
		s.st = st
		return err
	}
	s.st = memdb.NewStore(memCap)
	return nil
}

func (s *sut) reopen() error {
	if !isBolt(s.kind) {
		return nil
	}
	if err := s.st.Close(); err != nil {
		return err
	}
	return s.open()
}

func (s *sut) close() {
	if s.st != nil {
		_ = s.st.Close()
	}
	if s.dir != "" {
		_ = os.RemoveAll(s.dir)
	}
}

func (s *sut) sorted() []uint64 {
	ks := make([]uint64, 0, len(s.m))
	for k := range s.m {
		ks = append(ks, k)
	}
	sort.Slice(ks, func(i, j int) bool { return ks[i] < ks[j] })
	return ks
}

// put applies Put to store and model. Returns rounds evicted by the ring.
func (s *sut) put(r uint64, prev []byte) ([]uint64, error) {
	s.serial++
	sig := sigFor(r, s.serial)
	err := s.st.Put(s.ctx, &common.Beacon{Round: r, Signature: sig, PreviousSig: prev})
	if err != nil {
		return nil, err
	}
	var evicted []uint64
	if isMem(s.kind) {
		if _, ok := s.m[r]; !ok {
			s.m[r] = entry{sig, prev}
		}
		ks := s.sorted()
		for len(ks) > memCap {
			delete(s.m, ks[0])
			evicted = append(evicted, ks[0])
			ks = ks[1:]
		}
	} else {
		s.m[r] = entry{sig, prev}
	}
	return evicted, nil
}

func (s *sut) del(r uint64) error {
	if err := s.st.Del(s.ctx, r); err != nil {
		return err
	}
	delete(s.m, r)
	return nil
}

// readable says whether a present round must be readable, and what previous signature it must carry.
func (s *sut) expect(r uint64) (present, readable bool, e entry, wantPrev []byte) {
	e, present = s.m[r]
	if !present {
		return false, false, e, nil
	}
	switch {
	case isTrimmed(s.kind) && needsPrev(s.kind) && r > 0:
		p, ok := s.m[r-1]
		if !ok {
			return true, false, e, nil
		}
		return true, true, e, p.sig
	case isTrimmed(s.kind):
		return true, true, e, nil
	default:
		return true, true, e, e.prev
	}
}

type viol struct{ key, detail string }

func (v *viol) Error() string { return v.key + ": " + v.detail }

// checkBeacon: a returned beacon must carry the data of the round it is labelled with.
func (s *sut) checkBeacon(op string, b *common.Beacon) *viol {
	if b == nil {
		return &viol{"C18/nil-beacon-without-error", op + " returned nil beacon and nil error"}
	}
	present, readable, e, wantPrev := s.expect(b.Round)
	if !present {
		return &viol{"C18/returns-absent-round", fmt.Sprintf("%s returned a beacon labelled round %d (sig %q) but that round is not stored; stored=%v", op, b.Round, b.Signature, s.sorted())}
	}
	if !bytes.Equal(b.Signature, e.sig) {
		return &viol{"C18/mislabelled-beacon", fmt.Sprintf("%s returned round %d carrying %q, the map holds %q for that round; stored=%v", op, b.Round, b.Signature, e.sig, s.sorted())}
	}
	if !readable {
		return &viol{"C18/prev-not-preceding", fmt.Sprintf("%s returned round %d although round %d is not stored (previous signature %q cannot be reconstructed)", op, b.Round, b.Round-1, b.PreviousSig)}
	}
	if !bytes.Equal(b.PreviousSig, wantPrev) {
		return &viol{"C18/wrong-previous-signature", fmt.Sprintf("%s returned round %d with previous signature %q, expected %q", op, b.Round, b.PreviousSig, wantPrev)}
	}
	return nil
}

// checkExact: the op must return exactly round want (present) — or fail iff it is not readable.
func (s *sut) checkExact(op string, want uint64, b *common.Beacon, err error) *viol {
	_, readable, _, _ := s.expect(want)
	if err != nil {
		if readable {
			return &viol{"C18/read-fails-for-stored-round", fmt.Sprintf("%s failed (%v) although round %d is stored and readable; stored=%v", op, err, want, s.sorted())}
		}
		return nil
	}
	if v := s.checkBeacon(op, b); v != nil {
		return v
	}
	if b.Round != want {
		return &viol{"C18/wrong-round", fmt.Sprintf("%s returned round %d, the sorted map says %d; stored=%v", op, b.Round, want, s.sorted())}
	}
	return nil
}

func (s *sut) checkAbsent(op string, b *common.Beacon, err error) *viol {
	if err == nil {
		return &viol{"C18/returns-absent-round", fmt.Sprintf("%s returned %v although nothing matches; stored=%v", op, b, s.sorted())}
	}
	return nil
}

func (s *sut) get(r uint64) *viol {
	b, err := s.st.Get(s.ctx, r)
	op := fmt.Sprintf("Get(%d)", r)
	if _, ok := s.m[r]; !ok {
		return s.checkAbsent(op, b, err)
	}
	return s.checkExact(op, r, b, err)
}

func (s *sut) last() *viol {
	b, err := s.st.Last(s.ctx)
	ks := s.sorted()
	if len(ks) == 0 {
		return s.checkAbsent("Last()", b, err)
	}
	return s.checkExact("Last()", ks[len(ks)-1], b, err)
}

func (s *sut) length() *viol {
	n, err := s.st.Len(s.ctx)
	if err != nil {
		return &viol{"C18/len-error", err.Error()}
	}
	if n != len(s.m) {
		return &viol{"C18/wrong-length", fmt.Sprintf("Len() = %d, map has %d; stored=%v", n, len(s.m), s.sorted())}
	}
	return nil
}

// cursor op codes
const (
	cFirst = iota
	cNext
	cLast
	cSeek
	// in-session mutations (memdb only: the ring has no transaction; SyncChain puts while a cursor is open)
	cPut
	cDel
)

type cop struct {
	op int
	r  uint64
}

func (c cop) String() string {
	switch c.op {
	case cFirst:
		return "First"
	case cNext:
		return "Next"
	case cLast:
		return "Last"
	case cSeek:
		return fmt.Sprintf("Seek(%d)", c.r)
	case cPut:
		return fmt.Sprintf("put(%d)", c.r)
	default:
		return fmt.Sprintf("del(%d)", c.r)
	}
}

// session runs one cursor session with the given body and checks every step.
func (s *sut) session(body []cop) *viol {
	var out *viol
	errStop := errors.New("stop")
	err := s.st.Cursor(s.ctx, func(ctx context.Context, c chain.Cursor) error {
		havePos := false
		var pos uint64
		// rounds continuously present since pos was returned (memdb in-session mutation rule)
		since := map[uint64]bool{}
		mark := func(b *common.Beacon) {
			havePos, pos = true, b.Round
			since = map[uint64]bool{}
			for k := range s.m {
				since[k] = true
			}
		}
		for i, o := range body {
			op := fmt.Sprintf("cursor step %d %v (body %v)", i, o, body)
			switch o.op {
			case cPut:
				ev, err := s.put(o.r, []byte("p"))
				if err != nil {
					out = &viol{"C18/put-error", err.Error()}
					return errStop
				}
				for _, e := range ev {
					delete(since, e)
				}
				continue
			case cDel:
				if err := s.del(o.r); err != nil {
					out = &viol{"C18/del-error", err.Error()}
					return errStop
				}
				delete(since, o.r)
				continue
			}
			ks := s.sorted()
			var b *common.Beacon
			var err error
			switch o.op {
			case cFirst, cLast:
				if o.op == cFirst {
					b, err = c.First(ctx)
				} else {
					b, err = c.Last(ctx)
				}
				if len(ks) == 0 {
					out = s.checkAbsent(op, b, err)
				} else if o.op == cFirst {
					out = s.checkExact(op, ks[0], b, err)
				} else {
					out = s.checkExact(op, ks[len(ks)-1], b, err)
				}
			case cSeek:
				b, err = c.Seek(ctx, o.r)
				if _, ok := s.m[o.r]; ok {
					out = s.checkExact(op, o.r, b, err)
				} else if err == nil {
					// absent: "no beacon" or the least entry above, correctly labelled
					if out = s.checkBeacon(op, b); out == nil {
						idx := sort.Search(len(ks), func(i int) bool { return ks[i] > o.r })
						if idx == len(ks) || ks[idx] != b.Round {
							out = &viol{"C18/seek-absent-wrong-round", fmt.Sprintf("%s returned round %d, which is not the least stored round above %d; stored=%v", op, b.Round, o.r, ks)}
						}
					}
				}
			case cNext:
				b, err = c.Next(ctx)
				if err == nil {
					if out = s.checkBeacon(op, b); out == nil && havePos {
						if b.Round <= pos {
							out = &viol{"C18/next-not-ascending", fmt.Sprintf("%s returned round %d after round %d", op, b.Round, pos)}
						} else {
							for k := range since {
								if _, still := s.m[k]; still && k > pos && k < b.Round {
									out = &viol{"C18/next-skips-round", fmt.Sprintf("%s returned round %d after %d, skipping round %d which was stored the whole time; stored=%v", op, b.Round, pos, k, ks)}
								}
							}
						}
					}
				} else if havePos {
					// failing is right only if no continuously-present readable successor exists
					var succ []uint64
					for k := range since {
						if _, still := s.m[k]; still && k > pos {
							succ = append(succ, k)
						}
					}
					sort.Slice(succ, func(i, j int) bool { return succ[i] < succ[j] })
					if len(succ) > 0 {
						if _, readable, _, _ := s.expect(succ[0]); readable {
							out = &viol{"C18/next-skips-round", fmt.Sprintf("%s failed (%v) after round %d although round %d is stored; stored=%v", op, err, pos, succ[0], ks)}
						}
					}
				}
			}
			if out != nil {
				return errStop
			}
			if err == nil && b != nil {
				mark(b)
			} else {
				havePos = false
			}
		}
		return nil
	})
	if out != nil {
		return out
	}
	if err != nil && !errors.Is(err, errStop) {
		return &viol{"C18/cursor-error", err.Error()}
	}
	return nil
}

// observeAll runs every read-only observation: Get of the given rounds, Last, Len.
func (s *sut) observe(rounds []uint64) *viol {
	for _, r := range rounds {
		if v := s.get(r); v != nil {
			return v
		}
	}
	if v := s.last(); v != nil {
		return v
	}
	return s.length()
}
