package store

import (
	"fmt"
	"os"
	"strings"
	"testing"

	"github.com/drand/drand/v2/verifharness/stats"
	"pgregory.net/rapid"
)

func scratch(t interface{ Fatalf(string, ...any) }) string {
	base := os.Getenv("VERIF_SCRATCH")
	if base == "" {
		base = "/dev/shm"
	}
	d, err := os.MkdirTemp(base, "c18-")
	if err != nil {
		t.Fatalf("mkdtemp: %v", err)
	}
	return d
}

// all cursor-session bodies of length 1..maxLen over {First, Next, Last, Seek(r) for r in alphabet}
func allBodies(alphabet []uint64, maxLen int) [][]cop {
	var steps []cop
	steps = append(steps, cop{cFirst, 0}, cop{cNext, 0}, cop{cLast, 0})
	for _, r := range alphabet {
		steps = append(steps, cop{cSeek, r})
	}
	var out [][]cop
	var rec func(cur []cop)
	rec = func(cur []cop) {
		if len(cur) > 0 {
			out = append(out, append([]cop(nil), cur...))
		}
		if len(cur) == maxLen {
			return
		}
		for _, s := range steps {
			rec(append(cur, s))
		}
	}
	rec(nil)
	return out
}

type mut struct {
	put bool
	r   uint64
}

func (m mut) String() string {
	if m.put {
		return fmt.Sprintf("put(%d)", m.r)
	}
	return fmt.Sprintf("del(%d)", m.r)
}

// TestC18Exhaustive enumerates every mutation sequence (Put/Del over a 4-round alphabet) up to length L and, after each,
// every observation: Get of each round (+ neighbours), Last, Len and every cursor-session body of length <= 3.
func TestC18Exhaustive(t *testing.T) {
	rec := stats.Open(t, "C18")
	rec.Exhaustive(true)
	L := stats.N("VERIF_C18_L", 3)
	kinds := []int{}
	// shard = backend kind
	// shards nKinds.. repeat the bolt back-ends with an alphabet whose numeric order differs from the order of its
	// little-endian (or otherwise mis-encoded) keys and crosses the one-byte and two-byte boundaries
	wide := false
	if sh := stats.Shard(); sh < nKinds {
		kinds = append(kinds, sh)
	} else if sh-nKinds < nKinds && isBolt(sh-nKinds) {
		kinds = append(kinds, sh-nKinds)
		wide = true
	} else {
		t.Skip("no backend for this shard")
	}
	dir := scratch(t)
	defer os.RemoveAll(dir)
	for _, kind := range kinds {
		alphabet := []uint64{0, 1, 2, 3}
		if kind == kMemFull {
			alphabet = []uint64{20, 21, 22, 23}
		}
		if wide {
			alphabet = []uint64{255, 256, 257, 65536}
		}
		bodies := allBodies(alphabet, 3)
		probe := append(append([]uint64{}, alphabet...), alphabet[3]+1)
		var muts []mut
		for _, r := range alphabet {
			muts = append(muts, mut{true, r}, mut{false, r})
		}
		s, err := openSUT(kind, dir)
		if err != nil {
			t.Fatalf("open: %v", err)
		}
		reset := func() {
			for r := range s.m {
				if err := s.del(r); err != nil {
					t.Fatalf("reset: %v", err)
				}
			}
			if kind == kMemFull {
				// fresh ring, pre-filled to capacity with lower rounds
				s.close()
				s, err = openSUT(kind, dir)
				if err != nil {
					t.Fatalf("open: %v", err)
				}
				for r := uint64(5); r < 5+memCap; r++ {
					if _, err := s.put(r, []byte("p")); err != nil {
						t.Fatalf("prefill: %v", err)
					}
				}
			}
		}
		var seqs int64
		var rec2 func(seq []mut)
		rec2 = func(seq []mut) {
			// replay seq from a clean state
			reset()
			for _, m := range seq {
				var err error
				if m.put {
					_, err = s.put(m.r, []byte("p"))
				} else {
					err = s.del(m.r)
				}
				if err != nil {
					t.Fatalf("mutation failed: %v", err)
				}
			}
			desc := fmt.Sprintf("%s %v", kindNames[kind], seq)
			if v := s.observe(probe); v != nil {
				rec.Violation(t, v.key, fmt.Sprintf("[%s after %v] %s", kindNames[kind], seq, v.detail), map[string]any{"backend": kindNames[kind], "mutations": fmt.Sprint(seq)})
			}
			for _, b := range bodies {
				if v := s.session(b); v != nil {
					rec.Violation(t, v.key, fmt.Sprintf("[%s after %v] %s", kindNames[kind], seq, v.detail), map[string]any{"backend": kindNames[kind], "mutations": fmt.Sprint(seq), "session": fmt.Sprint(b)})
				}
			}
			seqs++
			nontrivial := false
			for _, m := range seq {
				if !m.put {
					nontrivial = true
				}
			}
			// gap or re-put also count
			seen := map[uint64]bool{}
			for _, m := range seq {
				if m.put && seen[m.r] {
					nontrivial = true
				}
				seen[m.r] = seen[m.r] || m.put
			}
			if len(s.m) > 0 {
				ks := s.sorted()
				if ks[len(ks)-1]-ks[0]+1 != uint64(len(ks)) {
					nontrivial = true
				}
			}
			rec.Case(desc, nontrivial, "exhaustive/"+kindNames[kind])
			if len(seq) == L {
				return
			}
			for _, m := range muts {
				rec2(append(append([]mut(nil), seq...), m))
			}
		}
		rec2(nil)
		rec.LabelN("observations/"+kindNames[kind], seqs*int64(len(bodies)+len(probe)+2))
		s.close()
	}
	rec.Set("exhaustive_mutation_length", L)
}

// TestC18Random: long random operation sequences with gaps, deletions, re-puts, several sessions, reopen (bolt),
// and mutations inside an open session (memdb).
func TestC18Random(t *testing.T) {
	rec := stats.Open(t, "C18")
	dir := scratch(t)
	defer os.RemoveAll(dir)
	rapid.Check(t, func(rt *rapid.T) {
		kind := rapid.IntRange(0, nKinds-1).Draw(rt, "backend")
		s, err := openSUT(kind, dir)
		if err != nil {
			rt.Fatalf("open: %v", err)
		}
		defer s.close()
		var hist []string
		flags := map[string]bool{}
		fail := func(v *viol) {
			rec.Violation(rt, v.key, fmt.Sprintf("[%s] %s; history: %s", kindNames[kind], v.detail, strings.Join(hist, " ")),
				map[string]any{"backend": kindNames[kind], "history": hist})
		}
		if kind == kMemFull {
			for r := uint64(5); r < 5+memCap; r++ {
				if _, err := s.put(r, []byte("p")); err != nil {
					rt.Fatalf("prefill: %v", err)
				}
			}
		}
		// rounds are base+small: the bases put the window across the 1-, 2-, 4- and 7-byte boundaries of the key encoding
		base := rapid.SampledFrom([]uint64{0, 0, 0, 240, 65520, 1<<32 - 20, 1<<56 - 20}).Draw(rt, "base")
		if kind == kMemFull {
			base = 0
		}
		if base > 0 {
			flags["high-rounds"] = true
		}
		genRound := rapid.Map(rapid.OneOf(rapid.Uint64Range(0, 12), rapid.Uint64Range(0, 40)), func(x uint64) uint64 { return base + x })
		sawMutation := false
		nextAppend := base
		rt.Repeat(map[string]func(*rapid.T){
			"append": func(rt *rapid.T) {
				// contiguous growth, the normal workload
				if ks := s.sorted(); len(ks) > 0 {
					nextAppend = ks[len(ks)-1] + 1
				}
				hist = append(hist, fmt.Sprintf("put(%d)", nextAppend))
				if _, err := s.put(nextAppend, []byte(fmt.Sprintf("prev%d", nextAppend))); err != nil {
					rt.Fatalf("put: %v", err)
				}
			},
			"put": func(rt *rapid.T) {
				r := genRound.Draw(rt, "round")
				if _, ok := s.m[r]; ok {
					flags["reput"] = true
				}
				hist = append(hist, fmt.Sprintf("put(%d)", r))
				if _, err := s.put(r, rapid.SliceOfN(rapid.Byte(), 0, 4).Draw(rt, "prev")); err != nil {
					rt.Fatalf("put: %v", err)
				}
				sawMutation = true
			},
			"del": func(rt *rapid.T) {
				r := genRound.Draw(rt, "round")
				if ks := s.sorted(); len(ks) > 0 && rapid.Bool().Draw(rt, "existing") {
					r = ks[rapid.IntRange(0, len(ks)-1).Draw(rt, "idx")]
				}
				hist = append(hist, fmt.Sprintf("del(%d)", r))
				if err := s.del(r); err != nil {
					rt.Fatalf("del: %v", err)
				}
				flags["del"] = true
				sawMutation = true
			},
			"get": func(rt *rapid.T) {
				r := genRound.Draw(rt, "round")
				hist = append(hist, fmt.Sprintf("get(%d)", r))
				if v := s.get(r); v != nil {
					fail(v)
				}
			},
			"last": func(rt *rapid.T) {
				hist = append(hist, "last")
				if v := s.last(); v != nil {
					fail(v)
				}
			},
			"len": func(rt *rapid.T) {
				hist = append(hist, "len")
				if v := s.length(); v != nil {
					fail(v)
				}
			},
			"reopen": func(rt *rapid.T) {
				if !isBolt(kind) {
					rt.Skip("no reopen for memdb")
				}
				hist = append(hist, "reopen")
				if err := s.reopen(); err != nil {
					rt.Fatalf("reopen: %v", err)
				}
				flags["reopen"] = true
			},
			"session": func(rt *rapid.T) {
				n := rapid.IntRange(1, 8).Draw(rt, "steps")
				body := make([]cop, 0, n)
				for i := 0; i < n; i++ {
					max := cSeek
					if isMem(kind) {
						max = cDel
					}
					o := cop{op: rapid.IntRange(0, max).Draw(rt, "cop")}
					if o.op == cNext && rapid.Bool().Draw(rt, "moreNext") {
						o.op = cNext
					}
					if o.op >= cSeek {
						o.r = genRound.Draw(rt, "r")
						if o.op == cPut && rapid.Bool().Draw(rt, "appendInSession") {
							if ks := s.sorted(); len(ks) > 0 {
								o.r = ks[len(ks)-1] + 1
							}
						}
					}
					if o.op >= cPut {
						flags["in-session-mutation"] = true
					}
					body = append(body, o)
				}
				hist = append(hist, fmt.Sprintf("session%v", body))
				if sawMutation {
					flags["cursor-after-mutation"] = true
				}
				if v := s.session(body); v != nil {
					fail(v)
				}
			},
			"scan": func(rt *rapid.T) {
				// full ascending scan: First then Next until the end
				body := []cop{{cFirst, 0}}
				for i := 0; i <= len(s.m); i++ {
					body = append(body, cop{cNext, 0})
				}
				hist = append(hist, "scan")
				if v := s.session(body); v != nil {
					fail(v)
				}
			},
		})
		labels := []string{"random/" + kindNames[kind]}
		for f := range flags {
			labels = append(labels, f)
		}
		nt := flags["cursor-after-mutation"] || flags["in-session-mutation"]
		rec.Case(kindNames[kind]+" "+strings.Join(hist, " "), nt, labels...)
	})
}
