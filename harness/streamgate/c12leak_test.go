package streamgate

import (
	"fmt"
	"os"
	"strings"
	"testing"
	"time"

	"github.com/drand/drand/v2/verifharness/stats"
	"pgregory.net/rapid"
)

// TestC12CallbackLeak: clients come and go in every way a stream can end -- a failed send or a disconnect during the catch-up
// scan, at the hand-over between catch-up and live delivery (with a beacon stored in between, so that the hand-over has
// something to send), or in the live phase. Afterwards nothing of them may remain registered with the store: a registration
// left behind costs a worker goroutine and a queue for ever and is fed by every later Put, so clients that keep coming and
// going would grow the node's state without bound. Oracle: after a stream has returned, the store never invokes its callback
// for a beacon stored later.
func TestC12CallbackLeak(t *testing.T) {
	rec := stats.Open(t, "C12")
	dir := scratch(t)
	defer os.RemoveAll(dir)
	rapid.Check(t, func(rt *rapid.T) {
		kind := rapid.IntRange(0, nBack-1).Draw(rt, "backend")
		if kind == backMemFull {
			kind = backUntrimmed
		}
		H := uint64(rapid.IntRange(3, 12).Draw(rt, "head"))
		r, err := newRig(kind, dir, H)
		if err != nil {
			rt.Fatalf("rig: %v", err)
		}
		defer r.close()
		k := rapid.IntRange(1, 5).Draw(rt, "clients")
		modes := []string{"fail-scan-send", "cancel-in-scan", "fail-handover-send", "cancel-at-handover", "fail-live-send", "cancel-live"}
		var hist []string
		type gone struct {
			s       *streamCtl
			headEnd uint64
		}
		var ended []gone
		for i := 0; i < k; i++ {
			mode := rapid.SampledFrom(modes).Draw(rt, "exit")
			s := r.open(fmt.Sprintf("203.0.113.%d:7", i+1), 1)
			stepUntil := func(gate string, max int) bool {
				for n := 0; n < max && !s.ended; n++ {
					if s.parkedAt(gate) >= 0 {
						return true
					}
					r.step(s, 0, nil)
				}
				return s.parkedAt(gate) >= 0
			}
			switch mode {
			case "fail-scan-send", "cancel-in-scan":
				if stepUntil("send", 10) {
					if mode == "fail-scan-send" {
						r.step(s, s.parkedAt("send"), errSend)
					} else {
						s.cancel()
					}
				}
			case "fail-handover-send", "cancel-at-handover":
				if stepUntil("register", 200) {
					r.put() // stored after the scan took its view: the hand-over has to send it
					r.step(s, s.parkedAt("register"), nil)
					// the callback of that put cannot exist (registered afterwards); the hand-over reads the head and sends
					for n := 0; n < 6 && !s.ended; n++ {
						if i := s.parkedAt("send"); i >= 0 {
							break
						}
						r.step(s, 0, nil)
					}
					if i := s.parkedAt("send"); i >= 0 {
						if mode == "fail-handover-send" {
							r.step(s, i, errSend)
						} else {
							s.cancel()
						}
					}
				}
			default:
				for n := 0; n < 300 && !s.ended; n++ {
					if st := r.step(s, 0, nil); st == "idle" {
						break
					}
				}
				r.put()
				r.await(s)
				for n := 0; n < 4 && !s.ended && s.parkedAt("send") < 0 && s.parkedAt("callback") >= 0; n++ {
					r.step(s, s.parkedAt("callback"), nil)
				}
				if mode == "fail-live-send" && s.parkedAt("send") >= 0 {
					r.step(s, s.parkedAt("send"), errSend)
				} else {
					s.cancel()
				}
			}
			// the stream returns
			deadline := time.Now().Add(3 * time.Second)
			for !s.ended && time.Now().Before(deadline) {
				r.collect(s)
				if !s.ended && len(s.more) > 0 && s.ctx.Err() == nil {
					// still parked somewhere after its failure: let it go on (a failed send ends the stream)
					r.step(s, 0, nil)
				}
				time.Sleep(2 * time.Millisecond)
			}
			hist = append(hist, fmt.Sprintf("client%d:%s(ended=%v)", i, mode, s.ended))
			if !s.ended {
				s.cancel()
				time.Sleep(20 * time.Millisecond)
				r.collect(s)
			}
			// with bolt a Put can wait for the stream's open read transaction and complete only now: it belongs to the time before
			// the stream returned (its callback may legitimately have seen it)
			for n := 0; n < 600 && r.putBusy != nil; n++ {
				r.pollPut()
				time.Sleep(5 * time.Millisecond)
			}
			headEnd := r.head
			if r.putBusy != nil && r.putRound > headEnd {
				headEnd = r.putRound
			}
			ended = append(ended, gone{s, headEnd})
		}
		// later beacons: nobody is connected any more
		for p := 0; p < 3; p++ {
			r.put()
			time.Sleep(15 * time.Millisecond)
		}
		desc := fmt.Sprintf("%s H=%d :: %s", backNames[kind], H, strings.Join(hist, " "))
		for _, g := range ended {
			g.s.mu.Lock()
			rounds := append([]uint64(nil), g.s.cbRounds...)
			g.s.mu.Unlock()
			for _, rd := range rounds {
				if g.s.ended && rd > g.headEnd {
					rec.Violation(rt, "C12/callback-left-registered", fmt.Sprintf("stream %d had returned when the head was %d, yet the store still invoked its callback for round %d: its registration (worker goroutine, queue) was left behind || case: %s", g.s.id, g.headEnd, rd, desc), map[string]any{"case": desc})
					break
				}
			}
			// release anything still parked so that goroutines end
			g.s.cancel()
		}
		rec.Case(desc, k >= 1, "callback-leak", fmt.Sprintf("clients=%d", k))
	})
}
