package streamgate

import (
	"bytes"
	"fmt"
	"os"
	"strings"
	"testing"

	"github.com/drand/drand/v2/verifharness/stats"
	"pgregory.net/rapid"
)

func scratch(t interface{ Fatalf(string, ...any) }) string {
	base := os.Getenv("VERIF_SCRATCH")
	if base == "" {
		base = "/dev/shm"
	}
	d, err := os.MkdirTemp(base, "c11-")
	if err != nil {
		t.Fatalf("mkdtemp: %v", err)
	}
	return d
}

// checkStream applies the C11 oracle to what one stream handed to Send so far.
func checkStream(r *rig, s *streamCtl) (key, detail string) {
	s.mu.Lock()
	sent := append([]uint64(nil), s.sent...)
	sigs := append([][]byte(nil), s.sentSig...)
	// a failed Send delivered nothing and ends the stream: what the code attempts afterwards is not part of the delivered sequence
	for i, ok := range s.sentOK {
		if !ok {
			sent, sigs = sent[:i], sigs[:i]
			break
		}
	}
	s.mu.Unlock()
	if s.ambiguousStart {
		return "", ""
	}
	if s.from > s.headAtOpen {
		if len(sent) > 0 {
			return "C11/sent-although-start-beyond-head", fmt.Sprintf("stream %d started at %d beyond head %d but sent %v", s.id, s.from, s.headAtOpen, sent)
		}
		return "", ""
	}
	for i, rd := range sent {
		if !bytes.Equal(sigs[i], sigOf(rd)) {
			return "C11/delivered-differs-from-stored", fmt.Sprintf("stream %d delivered round %d with %q, stored is %q", s.id, rd, sigs[i], sigOf(rd))
		}
		if i == 0 {
			if s.from >= 1 && rd != s.from {
				return "C11/first-round-wrong", fmt.Sprintf("stream %d asked from round %d, first delivered round is %d (all: %v)", s.id, s.from, rd, sent)
			}
			continue
		}
		if rd == sent[i-1] {
			return "C11/round-repeated", fmt.Sprintf("stream %d (from %d) delivered round %d twice: %v", s.id, s.from, rd, sent)
		}
		if rd != sent[i-1]+1 {
			return "C11/round-skipped", fmt.Sprintf("stream %d (from %d) delivered round %d after %d: %v", s.id, s.from, rd, sent[i-1], sent)
		}
	}
	return "", ""
}

func TestC11Stream(t *testing.T) {
	rec := stats.Open(t, "C11")
	dir := scratch(t)
	defer os.RemoveAll(dir)
	rapid.Check(t, func(rt *rapid.T) {
		kind := rapid.IntRange(0, nBack-1).Draw(rt, "backend")
		H := uint64(rapid.IntRange(0, 40).Draw(rt, "head"))
		if kind == backMemFull && H < 9 {
			H += 9
		}
		r, err := newRig(kind, dir, H)
		if err != nil {
			rt.Fatalf("rig: %v", err)
		}
		defer func() {
			for _, s := range r.streams {
				s.cancel()
			}
			r.close()
		}()
		var hist []string
		flags := map[string]bool{}
		puts := 0
		fail := func(key, detail string) {
			rec.Violation(rt, key, fmt.Sprintf("%s || case: %s H=%d :: %s", detail, backNames[kind], H, strings.Join(hist, " ")), map[string]any{"backend": backNames[kind], "head": H, "history": hist})
		}
		checkAll := func() {
			for _, s := range r.streams {
				if k, d := checkStream(r, s); k != "" {
					fail(k, d)
				}
			}
		}
		genStart := func() uint64 {
			lo := r.low
			switch rapid.IntRange(0, 5).Draw(rt, "startKind") {
			case 0:
				return 0
			case 1:
				if lo < 1 {
					return 1
				}
				return lo
			case 2:
				return lo + (r.head-lo)/2 + boolU(lo == 0 && r.head < 2)
			case 3:
				return r.head
			case 4:
				return r.head + 1
			default:
				return r.head + 5
			}
		}
		addrs := []string{"198.51.100.1:100", "198.51.100.2:200", "198.51.100.1:100"}
		scanning := func() []*streamCtl {
			var out []*streamCtl
			for _, s := range r.streams {
				s.mu.Lock()
				reg := s.registered
				s.mu.Unlock()
				if !s.ended && !reg && s.from >= 1 && s.from <= s.headAtOpen {
					out = append(out, s)
				}
			}
			return out
		}
		canPut := func() bool {
			if kind != backMemFull {
				return true
			}
			// the ring will drop round `low`: every stream still scanning must already have sent it
			for _, s := range scanning() {
				s.mu.Lock()
				last := uint64(0)
				if len(s.sent) > 0 {
					last = s.sent[len(s.sent)-1]
				}
				has := len(s.sent) > 0
				s.mu.Unlock()
				next := s.from
				if has {
					next = last + 1
				}
				if next <= r.low {
					return false
				}
			}
			return true
		}
		rt.Repeat(map[string]func(*rapid.T){
			"open": func(t *rapid.T) {
				if len(r.streams) >= 3 {
					t.Skip("enough streams")
				}
				if len(r.streams) >= len(addrs) {
					t.Skip("enough streams")
				}
				if !r.pollPut() {
					t.Skip("a put is still waiting: the head at open would be ambiguous")
				}
				from := genStart()
				if from == 0 && r.head == 0 && false {
					t.Skip()
				}
				addr := addrs[len(r.streams)]
				s := r.open(addr, from)
				hist = append(hist, fmt.Sprintf("open(s%d,from=%d,head=%d)", s.id, from, r.head))
				if len(r.streams) >= 2 {
					flags["concurrent"] = true
				}
				if len(r.streams) == 3 {
					flags["reconnect"] = true
				}
			},
			"step": func(t *rapid.T) {
				if len(r.streams) == 0 {
					t.Skip("no stream")
				}
				s := r.streams[rapid.IntRange(0, len(r.streams)-1).Draw(t, "stream")]
				if s.ended {
					t.Skip("ended")
				}
				k := rapid.IntRange(1, 6).Draw(t, "steps")
				st := ""
				for i := 0; i < k; i++ {
					which := 0
					if len(s.more) > 1 {
						// two goroutines of this stream are parked (hand-over vs. queued callback): the order is a generated choice
						which = rapid.IntRange(0, len(s.more)-1).Draw(t, "which")
						flags["handover-race"] = true
					}
					st = r.step(s, which, nil)
					if st == "ended" || st == "idle" {
						break
					}
				}
				hist = append(hist, fmt.Sprintf("step(s%d,%d)->%s", s.id, k, st))
				r.pollPut()
			},
			"handover": func(t *rapid.T) {
				// drive one stream to the hand-over between catch-up and live delivery, then store beacons while it sits there:
				// the queued callbacks and the hand-over's own read of the head are released in a generated order afterwards
				var cand *streamCtl
				for _, s := range r.streams {
					if !s.ended && s.from >= 1 && !s.ambiguousStart && (s.parkedAt("register") >= 0 || s.parkedAt("next") >= 0 || s.parkedAt("seek") >= 0 || s.parkedAt("send") >= 0) {
						s.mu.Lock()
						reg := s.registered
						s.mu.Unlock()
						if !reg {
							cand = s
						}
					}
				}
				if cand == nil || r.putBusy != nil || !canPut() {
					t.Skip("no stream in its catch-up phase")
				}
				for i := 0; i < 200 && !cand.ended && cand.parkedAt("register") < 0; i++ {
					r.step(cand, 0, nil)
				}
				if cand.ended || cand.parkedAt("register") < 0 {
					t.Skip("stream ended before the hand-over")
				}
				st := r.step(cand, cand.parkedAt("register"), nil)
				k := rapid.IntRange(1, 3).Draw(t, "putsDuringHandover")
				for i := 0; i < k && puts < 14; i++ {
					// each put may push the ring's window past a round some scanning stream has not sent yet
					if !canPut() || !r.put() {
						break
					}
					puts++
				}
				st = r.await(cand)
				hist = append(hist, fmt.Sprintf("handover(s%d,puts=%d)->%s", cand.id, k, st))
				flags["put-during-handover"] = true
			},
			"sendFail": func(t *rapid.T) {
				if len(r.streams) == 0 {
					t.Skip("no stream")
				}
				s := r.streams[rapid.IntRange(0, len(r.streams)-1).Draw(t, "stream")]
				if s.ended || s.parkedAt("send") < 0 {
					t.Skip("not at a send")
				}
				st := r.step(s, s.parkedAt("send"), errSend)
				hist = append(hist, fmt.Sprintf("sendFail(s%d)->%s", s.id, st))
				flags["send-error"] = true
			},
			"put": func(t *rapid.T) {
				if r.putBusy != nil {
					r.pollPut()
					t.Skip("previous put still waiting for a read transaction")
				}
				if !canPut() {
					t.Skip("ring would evict an unsent round")
				}
				if puts >= 14 {
					t.Skip("enough puts")
				}
				done := r.put()
				puts++
				tag := ""
				if !done {
					tag = "(waits)"
					flags["put-waits-for-read-tx"] = true
				}
				hist = append(hist, fmt.Sprintf("put(%d)%s", r.putRound, tag))
				if len(scanning()) > 0 {
					flags["put-during-catchup"] = true
				}
				// let live streams reach their send gates
				for _, s := range r.streams {
					if !s.ended && len(s.more) == 0 {
						r.await(s)
					}
				}
			},
			"reconnect": func(t *rapid.T) {
				// the client of a live stream connects again while a send to its first connection is still pending: the new
				// stream takes over (same callback id), the old one returns; what the old one still does must not hurt the new one
				if len(r.streams) >= 4 || r.putBusy != nil || !canPut() || puts >= 14 {
					t.Skip("no room")
				}
				var old *streamCtl
				for _, s := range r.streams {
					s.mu.Lock()
					reg := s.registered
					s.mu.Unlock()
					if !s.ended && reg && s.ctx.Err() == nil {
						old = s
					}
				}
				if old == nil {
					t.Skip("no live stream")
				}
				// run the old stream to quiescence, then store a beacon so that its callback worker sits in a Send
				for i := 0; i < 50 && !old.ended; i++ {
					if st := r.step(old, i, nil); st == "idle" || st == "ended" {
						break
					}
				}
				if old.ended || !r.put() {
					t.Skip("old stream ended")
				}
				puts++
				r.await(old)
				// the queued callback first parks at its own gate; let it through so that it sits in the Send
				for i := 0; i < 6 && !old.ended && old.parkedAt("send") < 0 && old.parkedAt("callback") >= 0; i++ {
					r.step(old, old.parkedAt("callback"), nil)
				}
				if old.ended || old.parkedAt("send") < 0 {
					hist = append(hist, fmt.Sprintf("reconnect-attempt(s%d: no pending send)", old.id))
					return
				}
				from := uint64(0)
				if rapid.Bool().Draw(t, "fromHead") {
					from = r.head
				}
				nw := r.open(old.addr, from)
				for i := 0; i < 60 && !nw.ended; i++ {
					nw.mu.Lock()
					reg := nw.registered
					nw.mu.Unlock()
					if reg {
						break
					}
					r.step(nw, 0, nil)
				}
				r.await(old)
				hist = append(hist, fmt.Sprintf("reconnect(s%d->s%d,from=%d,old-ended=%v)", old.id, nw.id, from, old.ended))
				flags["reconnect"] = true
				flags["reconnect-with-pending-send"] = true
			},
			"lateSend": func(t *rapid.T) {
				// a stream has returned (replaced by a re-connect of the same client, or ended by an error) while its callback worker
				// still sits in a Send: that send now completes or fails (the client's connection is gone)
				var cand *streamCtl
				for _, s := range r.streams {
					if s.ended {
						r.collectLate(s)
						if s.parkedAt("send") >= 0 {
							cand = s
						}
					}
				}
				if cand == nil {
					t.Skip("no ended stream with a pending send")
				}
				var err error
				if rapid.Bool().Draw(t, "fails") {
					err = errSend
				}
				r.step(cand, cand.parkedAt("send"), err)
				hist = append(hist, fmt.Sprintf("lateSend(s%d,err=%v)", cand.id, err != nil))
				flags["late-send-of-ended-stream"] = true
			},
			"cancel": func(t *rapid.T) {
				if len(r.streams) == 0 {
					t.Skip("no stream")
				}
				s := r.streams[rapid.IntRange(0, len(r.streams)-1).Draw(t, "stream")]
				if s.ended {
					t.Skip("ended")
				}
				s.cancel()
				s.more = nil
				st := r.await(s)
				hist = append(hist, fmt.Sprintf("cancel(s%d)->%s", s.id, st))
				flags["cancel"] = true
			},
			"": func(t *rapid.T) { checkAll() },
		})
		// drain: let every stream that is still alive run to quiescence; then it must have delivered up to the head
		for i := 0; i < 200 && r.putBusy != nil; i++ {
			for _, s := range r.streams {
				if !s.ended {
					r.step(s, 0, nil)
				}
			}
			r.pollPut()
		}
		finalPut := uint64(0)
		runAll := func() {
			for _, s := range r.streams {
				for i := 0; i < 400 && !s.ended; i++ {
					if st := r.step(s, i, nil); st == "idle" || st == "ended" {
						break
					}
				}
			}
		}
		runAll()
		// pending sends of streams that have already returned fail now (their clients are gone) ...
		late := 0
		for _, s := range r.streams {
			if s.ended {
				r.collectLate(s)
				for s.parkedAt("send") >= 0 {
					r.step(s, s.parkedAt("send"), errSend)
					late++
				}
			}
		}
		// ... and one more beacon is stored: every stream that is still alive must get it
		if late > 0 && r.putBusy == nil && canPut() {
			if r.put() {
				finalPut = r.putRound
				hist = append(hist, fmt.Sprintf("late-sends-failed(%d)+put(%d)", late, r.putRound))
			}
			for i := 0; i < 200 && r.putBusy != nil; i++ {
				for _, s := range r.streams {
					if !s.ended {
						r.step(s, 0, nil)
					}
				}
				r.pollPut()
			}
			runAll()
		}
		hist = append(hist, "drain")
		checkAll()
		for _, s := range r.streams {
			if s.ended || s.ctx.Err() != nil {
				continue
			}
			s.mu.Lock()
			sent := append([]uint64(nil), s.sent...)
			s.mu.Unlock()
			if finalPut > 0 && s.from == 0 {
				// a live-only stream that was registered before the last beacon was stored must have received that beacon
				s.mu.Lock()
				reg := s.registered
				s.mu.Unlock()
				if reg && (len(sent) == 0 || sent[len(sent)-1] != r.head) {
					fail("C11/live-stream-misses-new-round", fmt.Sprintf("stream %d (live only) is registered, alive and quiescent, round %d was stored after its registration, but it delivered %v", s.id, r.head, sent))
				}
			}
			if s.startRead && !s.ambiguousStart && s.from >= 1 && s.from <= s.headAtOpen {
				if len(sent) == 0 || sent[len(sent)-1] != r.head {
					last := "nothing"
					if len(sent) > 0 {
						last = fmt.Sprint(sent[len(sent)-1])
					}
					fail("C11/stream-misses-stored-round", fmt.Sprintf("stream %d (from %d) is alive and quiescent, the store head is %d, but the last delivered round is %s: %v", s.id, s.from, r.head, last, sent))
				}
			}
		}
		// a stream that started beyond the head must have been refused
		for _, s := range r.streams {
			if s.startRead && !s.ambiguousStart && s.from > s.headAtOpen && !s.ended {
				fail("C11/start-beyond-head-not-refused", fmt.Sprintf("stream %d asked from %d with head %d and was not refused", s.id, s.from, s.headAtOpen))
			}
		}
		labels := []string{"backend/" + backNames[kind]}
		for f := range flags {
			labels = append(labels, f)
		}
		nt := flags["put-during-catchup"] || flags["concurrent"] || flags["reconnect"]
		rec.Case(fmt.Sprintf("%s H=%d :: %s", backNames[kind], H, strings.Join(hist, " ")), nt, labels...)
	})
}

func boolU(b bool) uint64 {
	if b {
		return 1
	}
	return 0
}
