package streamgate

import (
	"context"
	"errors"
	"fmt"
	gonet "net"
	"os"
	"strings"
	"sync"
	"time"

	"google.golang.org/grpc/peer"

	"github.com/drand/drand/v2/common"
	"github.com/drand/drand/v2/internal/chain"
	"github.com/drand/drand/v2/internal/chain/beacon"
	"github.com/drand/drand/v2/internal/chain/boltdb"
	"github.com/drand/drand/v2/internal/chain/memdb"
	proto "github.com/drand/drand/v2/protobuf/drand"
	"github.com/drand/drand/v2/verifharness/hlog"
)

const (
	backTrimmed = iota
	backUntrimmed
	backMemFull // ring of capacity 10
	nBack
)

var backNames = []string{"bolt-trimmed", "bolt-untrimmed", "memdb10"}

func sigOf(r uint64) []byte { return []byte(fmt.Sprintf("sig-of-round-%06d", r)) }

func openBack(kind int, dir string) (chain.Store, error) {
	ctx := context.Background()
	switch kind {
	case backMemFull:
		return memdb.NewStore(10), nil
	case backUntrimmed:
		ctx = boltdb.IsATest(ctx)
	}
	d, err := os.MkdirTemp(dir, "sg")
	if err != nil {
		return nil, err
	}
	return boltdb.NewBoltStore(ctx, hlog.Discard(), d)
}

// gate is a rendez-vous point: the stream goroutine parks at it until the harness lets it through.
// The harness can always tell whether the goroutine is parked (and where), finished, or still running.
type parked struct {
	where string
	round uint64 // for "send": the round about to be sent
	resp  chan error
}

// streamCtl controls one SyncChain invocation.
type streamCtl struct {
	id             int
	addr           string
	from           uint64
	ctx            context.Context
	cancel         context.CancelFunc
	parkCh         chan *parked // stream goroutine -> harness: "I am parked here"
	more           []*parked    // goroutines of this stream currently parked (SyncChain goroutine and/or callback worker)
	done           chan error
	ended          bool
	endErr         error
	sent           []uint64 // rounds handed to Send (recorded at the gate)
	sentOK         []bool
	sentSig        [][]byte
	headAtOpen     uint64
	startRead      bool // the initial Last() of SyncChain was let through
	ambiguousStart bool
	registered     bool
	cbRounds       []uint64 // rounds for which the store invoked this stream's callback
	mu             sync.Mutex
	free           bool // when set, gates let everything through (used for free-running phases)
}

func (s *streamCtl) park(where string, round uint64) error {
	s.mu.Lock()
	free := s.free
	s.mu.Unlock()
	if free {
		return nil
	}
	p := &parked{where: where, round: round, resp: make(chan error, 1)}
	select {
	case s.parkCh <- p:
	case <-s.ctx.Done():
		return s.ctx.Err()
	}
	select {
	case err := <-p.resp:
		return err
	case <-s.ctx.Done():
		return s.ctx.Err()
	}
}

// gatedStream is the SyncStream handed to SyncChain.
type gatedStream struct{ s *streamCtl }

func (g *gatedStream) Context() context.Context { return g.s.ctx }
func (g *gatedStream) Send(b *proto.BeaconPacket) error {
	s := g.s
	s.mu.Lock()
	s.sent = append(s.sent, b.GetRound())
	s.sentSig = append(s.sentSig, append([]byte(nil), b.GetSignature()...))
	idx := len(s.sent) - 1
	s.sentOK = append(s.sentOK, true)
	s.mu.Unlock()
	err := s.park("send", b.GetRound())
	if err != nil {
		s.mu.Lock()
		s.sentOK[idx] = false
		s.mu.Unlock()
	}
	return err
}

// gatedStore wraps the CallbackStore handed to SyncChain for ONE stream: Cursor ops and AddCallback park at gates.
type gatedStore struct {
	beacon.CallbackStore
	s *streamCtl
}

func (g *gatedStore) Cursor(ctx context.Context, fn func(context.Context, chain.Cursor) error) error {
	return g.CallbackStore.Cursor(ctx, func(ctx context.Context, c chain.Cursor) error {
		return fn(ctx, &gatedCursor{Cursor: c, s: g.s})
	})
}

func (g *gatedStore) AddCallback(id string, fn beacon.CallbackFunc) {
	_ = g.s.park("register", 0)
	// every invocation of the stream's live callback parks first, so the order between queued callbacks and the
	// hand-over that follows the registration is owned by the harness as well
	g.CallbackStore.AddCallback(id, func(b *common.Beacon, closed bool) {
		if !closed && b != nil {
			_ = g.s.park("callback", b.Round)
		}
		fn(b, closed)
	})
	g.s.mu.Lock()
	g.s.registered = true
	g.s.mu.Unlock()
}

// AddReplaceableCallback is what SyncChain registers with since the reconnect fix: gated exactly like AddCallback.
func (g *gatedStore) AddReplaceableCallback(id string, fn beacon.CallbackFunc) func() {
	_ = g.s.park("register", 0)
	remove := g.CallbackStore.AddReplaceableCallback(id, func(b *common.Beacon, closed bool) {
		if !closed && b != nil {
			g.s.mu.Lock()
			g.s.cbRounds = append(g.s.cbRounds, b.Round)
			g.s.mu.Unlock()
			_ = g.s.park("callback", b.Round)
		}
		fn(b, closed)
	})
	g.s.mu.Lock()
	g.s.registered = true
	g.s.mu.Unlock()
	return remove
}

// Last is gated too: SyncChain reads the head once at the start and once for the hand-over after registering its callback.
func (g *gatedStore) Last(ctx context.Context) (*common.Beacon, error) {
	if err := g.s.park("last", 0); err != nil {
		return nil, err
	}
	return g.CallbackStore.Last(ctx)
}

type gatedCursor struct {
	chain.Cursor
	s *streamCtl
}

func (c *gatedCursor) Seek(ctx context.Context, r uint64) (*common.Beacon, error) {
	if err := c.s.park("seek", r); err != nil {
		return nil, err
	}
	return c.Cursor.Seek(ctx, r)
}

func (c *gatedCursor) Next(ctx context.Context) (*common.Beacon, error) {
	if err := c.s.park("next", 0); err != nil {
		return nil, err
	}
	return c.Cursor.Next(ctx)
}

type strAddr string

func (s strAddr) Network() string { return "tcp" }
func (s strAddr) String() string  { return string(s) }

func peerCtx(ctx context.Context, addr string) context.Context {
	var a gonet.Addr = strAddr(addr)
	return peer.NewContext(ctx, &peer.Peer{Addr: a})
}

// rig is one case: a callback store over a back-end, a head, and streams.
type rig struct {
	kind     int
	base     chain.Store
	cbs      beacon.CallbackStore
	head     uint64
	low      uint64 // lowest round still stored (ring)
	streams  []*streamCtl
	log      *hlog.Logger
	putBusy  chan error // non-nil while an asynchronous Put has not returned
	putRound uint64
}

func newRig(kind int, dir string, h uint64) (*rig, error) {
	base, err := openBack(kind, dir)
	if err != nil {
		return nil, err
	}
	r := &rig{kind: kind, base: base, log: hlog.Discard()}
	r.cbs = beacon.NewCallbackStore(r.log, base)
	for i := uint64(0); i <= h; i++ {
		if err := r.cbs.Put(context.Background(), &common.Beacon{Round: i, Signature: sigOf(i)}); err != nil {
			return nil, err
		}
	}
	r.head = h
	r.fixLow()
	return r, nil
}

func (r *rig) fixLow() {
	if r.kind == backMemFull && r.head+1 > 10 {
		r.low = r.head + 1 - 10
	}
}

func (r *rig) close() { _ = r.cbs.Close() }

// open starts a SyncChain for a client address from a start round. It returns after the goroutine parked or ended.
func (r *rig) open(addr string, from uint64) *streamCtl {
	ctx, cancel := context.WithCancel(peerCtx(context.Background(), addr))
	s := &streamCtl{id: len(r.streams), addr: addr, from: from, ctx: ctx, cancel: cancel, parkCh: make(chan *parked), done: make(chan error, 1), headAtOpen: r.head}
	r.streams = append(r.streams, s)
	go func() {
		s.done <- beacon.SyncChain(r.log, &gatedStore{CallbackStore: r.cbs, s: s}, &proto.SyncRequest{FromRound: from, Metadata: &proto.Metadata{BeaconID: "sg"}}, &gatedStream{s: s})
	}()
	r.await(s)
	return s
}

// collect drains what the stream's goroutines have announced so far (never blocks).
func (r *rig) collect(s *streamCtl) {
	for {
		select {
		case p := <-s.parkCh:
			s.more = append(s.more, p)
		case err := <-s.done:
			s.ended, s.endErr = true, err
			return
		default:
			return
		}
	}
}

// collectLate picks up goroutines of an ENDED stream that are still parked (its callback worker inside a Send that has not
// returned yet: SyncChain returned, e.g. because the callback was replaced, while that send was pending).
func (r *rig) collectLate(s *streamCtl) {
	for {
		select {
		case p := <-s.parkCh:
			s.more = append(s.more, p)
		default:
			return
		}
	}
}

// await waits until at least one goroutine of the stream is parked at a gate, the stream has ended, or it is idle in its live
// phase (nothing to do). Returns a short state string. A stream has two goroutines that can park independently: the
// SyncChain goroutine and the callback worker.
func (r *rig) await(s *streamCtl) string {
	if s.ended {
		return "ended"
	}
	idle := 25 * time.Millisecond
	s.mu.Lock()
	reg := s.registered
	s.mu.Unlock()
	if !reg {
		idle = 2 * time.Second // before registration the goroutine must reach a gate or end
	}
	deadline := time.Now().Add(idle)
	for {
		r.collect(s)
		if s.ended {
			return "ended"
		}
		if len(s.more) > 0 {
			// give a second goroutine that is about to park a moment to announce itself
			time.Sleep(300 * time.Microsecond)
			r.collect(s)
			return r.state(s)
		}
		if time.Now().After(deadline) {
			return "idle"
		}
		time.Sleep(100 * time.Microsecond)
	}
}

func (r *rig) state(s *streamCtl) string {
	if s.ended {
		return "ended"
	}
	if len(s.more) == 0 {
		return "idle"
	}
	var w []string
	for _, p := range s.more {
		w = append(w, p.where)
	}
	return "parked:" + strings.Join(w, "+")
}

// step releases the parked goroutine `which` (modulo the number parked; optionally making a Send fail) and waits for the next state.
func (r *rig) step(s *streamCtl, which int, sendErr error) string {
	if s.ended && len(s.more) == 0 {
		r.collectLate(s)
	}
	if s.ended && len(s.more) == 0 {
		return "ended"
	}
	if len(s.more) == 0 {
		if st := r.await(s); len(s.more) == 0 {
			return st
		}
	}
	idx := which % len(s.more)
	p := s.more[idx]
	s.more = append(s.more[:idx], s.more[idx+1:]...)
	if p.where == "last" && !s.startRead {
		// the stream takes its view of the head now, not when it was opened
		s.startRead = true
		r.pollPut()
		s.headAtOpen = r.head
		if r.putBusy != nil {
			s.ambiguousStart = true
		}
	}
	if p.where == "send" {
		p.resp <- sendErr
	} else {
		p.resp <- nil
	}
	return r.await(s)
}

// parkedAt returns the index of a goroutine parked at the given gate, or -1.
func (s *streamCtl) parkedAt(where string) int {
	for i, p := range s.more {
		if p.where == where {
			return i
		}
	}
	return -1
}

// put appends round head+1. With bolt a write can wait for an open read transaction (mmap growth), so the Put runs
// asynchronously and the harness keeps stepping; it returns true when the Put has completed.
func (r *rig) put() bool {
	if r.putBusy != nil {
		return r.pollPut()
	}
	next := r.head + 1
	ch := make(chan error, 1)
	go func() { ch <- r.cbs.Put(context.Background(), &common.Beacon{Round: next, Signature: sigOf(next)}) }()
	r.putBusy, r.putRound = ch, next
	select {
	case err := <-ch:
		r.putBusy = nil
		if err == nil {
			r.head = next
			r.fixLow()
		}
		return true
	case <-time.After(40 * time.Millisecond):
		return false
	}
}

func (r *rig) pollPut() bool {
	if r.putBusy == nil {
		return true
	}
	select {
	case err := <-r.putBusy:
		r.putBusy = nil
		if err == nil {
			r.head = r.putRound
			r.fixLow()
		}
		return true
	case <-time.After(2 * time.Millisecond):
		return false
	}
}

var errSend = errors.New("harness: send failed (client went away)")

// scriptedStream is a free-running SyncStream whose Send is a function.
type scriptedStream struct {
	ctx  context.Context
	send func(round uint64) error
}

func (s *scriptedStream) Context() context.Context { return s.ctx }
func (s *scriptedStream) Send(b *proto.BeaconPacket) error {
	select {
	case <-s.ctx.Done():
		return s.ctx.Err()
	default:
	}
	return s.send(b.GetRound())
}

func syncReq(from uint64) *proto.SyncRequest {
	return &proto.SyncRequest{FromRound: from, Metadata: &proto.Metadata{BeaconID: "sg"}}
}
