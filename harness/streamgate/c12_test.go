package streamgate

import (
	"context"
	"fmt"
	"os"
	"strings"
	"sync"
	"testing"
	"time"

	"github.com/drand/drand/v2/common"
	"github.com/drand/drand/v2/internal/chain/beacon"
	"github.com/drand/drand/v2/verifharness/stats"
	"pgregory.net/rapid"
)

// putBound is the real-time bound for one Put / read (normal: well below 5 ms). A Put that is still blocked after it is
// re-examined: only a Put that never completes while the hostile consumers stay stalled is reported.
const putBound = 2 * time.Second

// consumer behaviours
const (
	consHealthy   = iota // Send returns at once
	consStalled          // Send never returns (until cancelled at the end)
	consSlow             // Send sleeps 2-20 ms
	consFailOnce         // first Send fails
	consCancelMid        // context cancelled during the first Send
	nCons
)

var consNames = []string{"healthy", "stalled", "slow", "fails-once", "cancels-mid-send"}

// TestC12Consumers: stream consumers that stall, are slow, fail or disconnect must not delay Put, reads or other consumers.
func TestC12Consumers(t *testing.T) {
	rec := stats.Open(t, "C12")
	dir := scratch(t)
	defer os.RemoveAll(dir)
	rapid.Check(t, func(rt *rapid.T) {
		kind := rapid.IntRange(0, nBack-1).Draw(rt, "backend")
		H := uint64(rapid.IntRange(10, 20).Draw(rt, "head"))
		r, err := newRig(kind, dir, H)
		if err != nil {
			rt.Fatalf("rig: %v", err)
		}
		nh := rapid.IntRange(0, 3).Draw(rt, "hostile")
		var behaviours []int
		for i := 0; i < nh; i++ {
			behaviours = append(behaviours, rapid.IntRange(1, nCons-1).Draw(rt, "behaviour"))
		}
		queue := beacon.CallbackWorkerQueue
		M := rapid.IntRange(1, 3*queue).Draw(rt, "puts")
		if rapid.IntRange(0, 2).Draw(rt, "crossQueue") > 0 {
			M = 2*queue + 2 + rapid.IntRange(0, 40).Draw(rt, "extra")
		}
		reattach := rapid.Bool().Draw(rt, "reattach")
		disconnect := rapid.Bool().Draw(rt, "disconnectHostile")
		var names []string
		for _, b := range behaviours {
			names = append(names, consNames[b])
		}
		desc := fmt.Sprintf("%s H=%d hostile=[%s] puts=%d reattach=%v disconnect=%v", backNames[kind], H, strings.Join(names, ","), M, reattach, disconnect)
		// consumers attach through the real SyncChain in live mode (start round = head): free-running streams with scripted Send
		type cons struct {
			beh    int
			cancel context.CancelFunc
			mu     sync.Mutex
			got    []uint64
			sends  int
			done   chan error
		}
		var all []*cons
		attach := func(beh int, addr string) *cons {
			ctx, cancel := context.WithCancel(peerCtx(context.Background(), addr))
			c := &cons{beh: beh, cancel: cancel, done: make(chan error, 1)}
			st := &scriptedStream{ctx: ctx, send: func(rd uint64) error {
				c.mu.Lock()
				c.sends++
				n := c.sends
				c.mu.Unlock()
				switch c.beh {
				case consStalled:
					<-ctx.Done()
					return ctx.Err()
				case consSlow:
					time.Sleep(time.Duration(2+rd%18) * time.Millisecond)
				case consFailOnce:
					if n == 1 {
						return errSend
					}
				case consCancelMid:
					if n == 1 {
						cancel()
						return ctx.Err()
					}
				}
				c.mu.Lock()
				c.got = append(c.got, rd)
				c.mu.Unlock()
				return nil
			}}
			go func() {
				c.done <- beacon.SyncChain(r.log, r.cbs, syncReq(0), st)
			}()
			all = append(all, c)
			return c
		}
		for i, b := range behaviours {
			attach(b, fmt.Sprintf("203.0.113.%d:9", i+1))
		}
		healthy := attach(consHealthy, "198.51.100.50:1")
		internalGot := make(chan uint64, 4*queue+100)
		r.cbs.AddCallback("internal", func(b *common.Beacon, closed bool) {
			if !closed {
				internalGot <- b.Round
			}
		})
		// warm-up: append beacons until every consumer (they are live-only streams that register asynchronously) has been
		// handed one, so that the measured phase starts with all callbacks attached
		for w := 0; w < 200; w++ {
			H++
			if err := r.cbs.Put(context.Background(), &common.Beacon{Round: H, Signature: sigOf(H)}); err != nil {
				rt.Fatalf("warm-up put: %v", err)
			}
			ready := true
			wait := time.Now().Add(30 * time.Millisecond)
			for {
				ready = true
				for _, c := range all {
					c.mu.Lock()
					if c.sends == 0 {
						ready = false
					}
					c.mu.Unlock()
				}
				if ready || time.Now().After(wait) {
					break
				}
				time.Sleep(200 * time.Microsecond)
			}
			if ready {
				break
			}
		}
		time.Sleep(2 * time.Millisecond)
		healthy.mu.Lock()
		healthy.got = nil
		healthy.mu.Unlock()
		for len(internalGot) > 0 {
			<-internalGot
		}
		defer func() {
			for _, c := range all {
				c.cancel()
			}
			r.close()
		}()
		fail := func(key, detail string) {
			rec.Violation(rt, key, detail+" || case: "+desc, map[string]any{"case": desc})
		}
		timed := func(what string, f func() error) (time.Duration, bool) {
			ch := make(chan error, 1)
			t0 := time.Now()
			go func() { ch <- f() }()
			select {
			case <-ch:
				return time.Since(t0), true
			case <-time.After(putBound):
				// not a verdict yet: re-examine with a long wait so that a starved machine is not mistaken for a blocked Put
				select {
				case <-ch:
					return time.Since(t0), true
				case <-time.After(8 * time.Second):
					return time.Since(t0), false
				}
			}
		}
		var maxPut time.Duration
		for i := 1; i <= M; i++ {
			rd := H + uint64(i)
			d, ok := timed("put", func() error {
				return r.cbs.Put(context.Background(), &common.Beacon{Round: rd, Signature: sigOf(rd)})
			})
			if !ok {
				fail("C12/put-blocked-by-consumer", fmt.Sprintf("Put of round %d (the %d-th beacon after the consumers attached) had not returned after %v while a consumer was stalled", rd, i, d))
				return
			}
			if d > maxPut {
				maxPut = d
			}
			// pace the appends like a beacon chain does: a consumer that keeps up is never more than a few rounds behind
			// (without this the loop appends faster than any consumer can follow, which no remote party can cause)
			paceDeadline := time.Now().Add(10 * time.Second)
			for time.Now().Before(paceDeadline) {
				healthy.mu.Lock()
				n := len(healthy.got)
				healthy.mu.Unlock()
				if n+20 >= i && len(internalGot)+20 >= i {
					break
				}
				time.Sleep(200 * time.Microsecond)
			}
			if i%50 == 0 {
				if _, ok := timed("last", func() error { _, err := r.cbs.Last(context.Background()); return err }); !ok {
					fail("C12/read-blocked-by-consumer", "Last() did not return while a consumer was stalled")
					return
				}
			}
			if disconnect && i == (2*M)/3 && len(behaviours) > 0 {
				// the hostile clients go away (their contexts end) while their queues may be full: tearing them down must not wedge
				// the store, and a new client must be able to attach and be served afterwards
				for _, c := range all[:len(behaviours)] {
					c.cancel()
				}
				if _, ok := timed("last-after-disconnect", func() error { _, err := r.cbs.Last(context.Background()); return err }); !ok {
					fail("C12/read-blocked-by-consumer", "Last() blocked after the stalled consumers disconnected")
					return
				}
				// a new client can attach (AddCallback needs the store's write lock) within the bound
				if _, ok := timed("attach-after-disconnect", func() error {
					r.cbs.AddCallback("late-internal", func(*common.Beacon, bool) {})
					return nil
				}); !ok {
					fail("C12/attach-blocked-after-disconnect", "AddCallback blocked after the stalled consumers disconnected")
					return
				}
			}
			if reattach && i == M/2 && len(behaviours) > 0 {
				// the stalled client reconnects from the same address: the replacement must not wedge the store
				if _, ok := timed("reattach", func() error { attach(consHealthy, "203.0.113.1:9"); time.Sleep(5 * time.Millisecond); return nil }); !ok {
					fail("C12/reattach-blocked", "a re-connecting consumer blocked")
					return
				}
				// the replacement registers its callback inside SyncChain: give it the bound to get there
				d, ok := timed("put-after-reattach", func() error {
					rd2 := H + uint64(M) + 1000
					_ = rd2
					_, err := r.cbs.Last(context.Background())
					return err
				})
				if !ok {
					fail("C12/read-blocked-by-consumer", fmt.Sprintf("Last() blocked for %v after a stalled client re-connected", d))
					return
				}
			}
		}
		// the healthy consumer and the internal callback received every beacon, in order
		deadline := time.Now().Add(10 * time.Second)
		for time.Now().Before(deadline) {
			healthy.mu.Lock()
			n := len(healthy.got)
			healthy.mu.Unlock()
			if n >= M && len(internalGot) >= M {
				time.Sleep(2 * time.Millisecond)
				break
			}
			time.Sleep(2 * time.Millisecond)
		}
		healthy.mu.Lock()
		var got []uint64
		for _, g := range healthy.got {
			if g > H { // a warm-up beacon may still have been in flight when the measured phase started
				got = append(got, g)
			}
		}
		healthy.mu.Unlock()
		if len(got) != M {
			missing := []uint64{}
			have := map[uint64]bool{}
			for _, g := range got {
				have[g] = true
			}
			for i := 1; i <= M; i++ {
				if !have[H+uint64(i)] {
					missing = append(missing, H+uint64(i))
				}
			}
			fail("C12/healthy-consumer-starved", fmt.Sprintf("the healthy consumer received %d of %d beacons while other consumers misbehaved (missing %v, last %v)", len(got), M, missing, tailU(got)))
			return
		}
		for i, rd := range got {
			if rd != H+uint64(i)+1 {
				fail("C12/healthy-consumer-disordered", fmt.Sprintf("healthy consumer got round %d at position %d", rd, i))
				return
			}
		}
		if len(internalGot) < M || len(internalGot) > M+1 {
			fail("C12/internal-callback-starved", fmt.Sprintf("the internal callback received %d of %d beacons", len(internalGot), M))
			return
		}
		rec.Max("max_put_latency_ms", float64(maxPut.Microseconds())/1000)
		labels := []string{"consumers", "backend/" + backNames[kind]}
		for _, b := range behaviours {
			labels = append(labels, "consumer/"+consNames[b])
		}
		if M > queue {
			labels = append(labels, "puts>queue")
		}
		if M > 2*queue {
			labels = append(labels, "puts>2*queue")
		}
		rec.Case(desc, nh > 0 && M > queue, labels...)
	})
}

func tailU(x []uint64) []uint64 {
	if len(x) > 3 {
		return x[len(x)-3:]
	}
	return x
}
