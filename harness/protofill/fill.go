// Package protofill fills protobuf messages from their descriptors with rapid-drawn values: each field independently absent /
// zero / typical / hostile, nested messages nil / empty / filled, every oneof arm, short lists (C14 request generators).
package protofill

import (
	"strings"

	"google.golang.org/protobuf/reflect/protoreflect"
	"pgregory.net/rapid"
)

// fillMessage populates m from its descriptor: every field is independently absent / zero / typical / hostile; nested messages
// nil, empty or filled; every oneof arm (or none); lists of 0-3 elements. ctxv supplies "typical" values (known ids, hashes, head).
type Ctx struct {
	// full: no field is left absent and every nested message is filled (structurally complete requests get past early validation)
	Full   bool
	IDs    []string
	Hashes [][]byte
	Head   uint64
	Valid  [][]byte // byte strings worth trying (valid partial signatures, keys...)
}

func Fill(t *rapid.T, m protoreflect.Message, fc *Ctx, depth int, path string) {
	fds := m.Descriptor().Fields()
	doneOneof := map[string]bool{}
	for i := 0; i < fds.Len(); i++ {
		fd := fds.Get(i)
		label := path + "." + string(fd.Name())
		if oo := fd.ContainingOneof(); oo != nil && !oo.IsSynthetic() {
			if doneOneof[string(oo.Name())] {
				continue
			}
			doneOneof[string(oo.Name())] = true
			lo := -1
			if fc.Full {
				lo = 0
			}
			k := rapid.IntRange(lo, oo.Fields().Len()-1).Draw(t, label+"#arm")
			if k < 0 {
				continue
			}
			fd = oo.Fields().Get(k)
			label = path + "." + string(fd.Name())
		} else if !fc.Full && rapid.IntRange(0, 3).Draw(t, label+"#absent") == 0 {
			continue
		}
		if fd.IsList() {
			n := rapid.IntRange(0, 3).Draw(t, label+"#len")
			l := m.Mutable(fd).List()
			for j := 0; j < n; j++ {
				if fd.Kind() == protoreflect.MessageKind {
					e := l.NewElement()
					if depth < 4 && (fc.Full || rapid.Bool().Draw(t, label+"#fillElem")) {
						Fill(t, e.Message(), fc, depth+1, label)
					}
					l.Append(e)
				} else {
					l.Append(scalarValue(t, fd, fc, label))
				}
			}
			continue
		}
		if fd.IsMap() {
			continue
		}
		if fd.Kind() == protoreflect.MessageKind {
			sub := m.Mutable(fd).Message()
			if depth < 4 && (fc.Full || rapid.IntRange(0, 3).Draw(t, label+"#fill") > 0) {
				Fill(t, sub, fc, depth+1, label)
			}
			continue
		}
		m.Set(fd, scalarValue(t, fd, fc, label))
	}
}

func scalarValue(t *rapid.T, fd protoreflect.FieldDescriptor, fc *Ctx, label string) protoreflect.Value {
	switch fd.Kind() {
	case protoreflect.BoolKind:
		return protoreflect.ValueOfBool(rapid.Bool().Draw(t, label))
	case protoreflect.StringKind:
		name := strings.ToLower(string(fd.Name()))
		opts := []string{"", "default", "zzz", strings.Repeat("x", 300), "127.0.0.1:1", "not-an-address", "pedersen-bls-chained", "no-such-scheme"}
		if strings.Contains(name, "beaconid") {
			opts = append(opts, fc.IDs...)
			opts = append(opts, fc.IDs...)
			if fc.Full {
				opts = fc.IDs
			}
		}
		return protoreflect.ValueOfString(rapid.SampledFrom(opts).Draw(t, label))
	case protoreflect.BytesKind:
		name := strings.ToLower(string(fd.Name()))
		var opts [][]byte
		opts = append(opts, nil, []byte{}, []byte{0}, []byte{0, 1}, make([]byte, 47), make([]byte, 48), make([]byte, 49), make([]byte, 96), make([]byte, 98), make([]byte, 64*1024))
		if strings.Contains(name, "hash") {
			opts = append(opts, fc.Hashes...)
			opts = append(opts, fc.Hashes...)
		}
		opts = append(opts, fc.Valid...)
		b := rapid.SampledFrom(opts).Draw(t, label)
		if len(b) > 4 && rapid.IntRange(0, 4).Draw(t, label+"#flip") == 0 {
			b = append([]byte(nil), b...)
			b[len(b)/2] ^= 0xff
		}
		return protoreflect.ValueOfBytes(b)
	case protoreflect.Uint64Kind, protoreflect.Fixed64Kind:
		return protoreflect.ValueOfUint64(rapid.SampledFrom([]uint64{0, 1, 2, fc.Head, fc.Head + 1, fc.Head + 2, 1 << 32, ^uint64(0)}).Draw(t, label))
	case protoreflect.Uint32Kind, protoreflect.Fixed32Kind:
		return protoreflect.ValueOfUint32(rapid.SampledFrom([]uint32{0, 1, 2, 3, 1 << 16, ^uint32(0)}).Draw(t, label))
	case protoreflect.Int64Kind, protoreflect.Sint64Kind, protoreflect.Sfixed64Kind:
		return protoreflect.ValueOfInt64(rapid.SampledFrom([]int64{0, 1, -1, 1700000000, 1 << 40, -(1 << 62), 1<<63 - 1}).Draw(t, label))
	case protoreflect.Int32Kind, protoreflect.Sint32Kind, protoreflect.Sfixed32Kind:
		return protoreflect.ValueOfInt32(rapid.SampledFrom([]int32{0, 1, -1, 1<<31 - 1}).Draw(t, label))
	case protoreflect.EnumKind:
		return protoreflect.ValueOfEnum(protoreflect.EnumNumber(rapid.IntRange(0, 5).Draw(t, label)))
	case protoreflect.DoubleKind:
		return protoreflect.ValueOfFloat64(1.5)
	case protoreflect.FloatKind:
		return protoreflect.ValueOfFloat32(1.5)
	}
	return fd.Default()
}
