package pure

import (
	"strings"
	"bytes"
	"encoding/hex"
	"encoding/json"
	"fmt"
	"testing"
	"time"

	"github.com/BurntSushi/toml"
	"github.com/drand/drand/v2/common"
	"github.com/drand/drand/v2/common/chain"
	"github.com/drand/drand/v2/common/key"
	"github.com/drand/drand/v2/verifharness/fx"
	"github.com/drand/drand/v2/verifharness/stats"
	"pgregory.net/rapid"
)

func groupViaTOML(g *key.Group) (*key.Group, error) {
	var buf bytes.Buffer
	if err := toml.NewEncoder(&buf).Encode(g.TOML()); err != nil {
		return nil, err
	}
	gt := &key.GroupTOML{}
	if _, err := toml.NewDecoder(&buf).Decode(gt); err != nil {
		return nil, err
	}
	out := new(key.Group)
	return out, out.FromTOML(gt)
}

func infoPaths(info *chain.Info) (map[string]*chain.Info, error) {
	out := map[string]*chain.Info{}
	p, err := chain.InfoFromProto(info.ToProto(nil))
	if err != nil {
		return nil, fmt.Errorf("proto: %w", err)
	}
	out["proto"] = p
	b, err := json.Marshal(info)
	if err != nil {
		return nil, fmt.Errorf("json marshal: %w", err)
	}
	j := new(chain.Info)
	if err := json.Unmarshal(b, j); err != nil {
		return nil, fmt.Errorf("json unmarshal: %w (doc %s)", err, b)
	}
	out["json"] = j
	var buf bytes.Buffer
	if err := info.ToJSON(&buf, nil); err != nil {
		return nil, fmt.Errorf("ToJSON: %w", err)
	}
	pj, err := chain.InfoFromJSON(&buf)
	if err != nil {
		return nil, fmt.Errorf("InfoFromJSON: %w", err)
	}
	out["protojson"] = pj
	// cross path: the document ToJSON emits (the layout relays serve: schemeID / groupHash / metadata.beaconID) read by
	// json.Unmarshal into an Info
	buf.Reset()
	if err := info.ToJSON(&buf, nil); err != nil {
		return nil, fmt.Errorf("ToJSON: %w", err)
	}
	rj := new(chain.Info)
	if err := json.Unmarshal(buf.Bytes(), rj); err != nil {
		return nil, fmt.Errorf("json unmarshal of the ToJSON document: %w (doc %s)", err, buf.Bytes())
	}
	out["relayjson"] = rj
	return out, nil
}

// otherID returns an id that is not equivalent to id.
func otherID(id string, pick int) string {
	cands := []string{"x" + id, id + "x", "zz", "default2", "Default"}
	c := cands[pick%len(cands)]
	if common.CompareBeaconIDs(c, id) {
		return "qq"
	}
	return c
}

// TestC17ChainHash: equal parameters => equal hash on every encoding path; any single identified parameter changed => hash changes;
// membership / threshold / transition changes => hash unchanged; JSON decode rejects a mismatching embedded hash.
func TestC17ChainHash(t *testing.T) {
	rec := stats.Open(t, "C17")
	rapid.Check(t, func(rt *rapid.T) {
		spec := genGroupSpec(true).Draw(rt, "group")
		net, g := spec.build()
		info := chain.NewChainInfo(g)
		h0 := info.Hash()
		art := map[string]any{"spec": spec.String()}

		// (1) determinism and path independence
		if !bytes.Equal(h0, chain.NewChainInfo(g).Hash()) {
			rec.Violation(rt, "C17/chainhash-nondeterministic", "two calls give different chain hashes for "+spec.String(), art)
		}
		paths, err := infoPaths(info)
		if err != nil {
			rec.Violation(rt, "C17/info-roundtrip-error", fmt.Sprintf("%v for %s", err, spec), art)
			return
		}
		for name, i2 := range paths {
			if !bytes.Equal(i2.Hash(), h0) {
				rec.Violation(rt, "C17/chainhash-path-"+name, fmt.Sprintf("chain hash differs after %s path: %x vs %x for %s", name, i2.Hash(), h0, spec), art)
			}
		}
		if gt, err := groupViaTOML(g); err != nil {
			rec.Violation(rt, "C17/group-toml-error", fmt.Sprintf("%v for %s", err, spec), art)
		} else if h := chain.NewChainInfo(gt).Hash(); !bytes.Equal(h, h0) {
			rec.Violation(rt, "C17/chainhash-path-grouptoml", fmt.Sprintf("chain hash differs after group TOML round trip: %x vs %x for %s", h, h0, spec), art)
		}
		if gp, err := key.GroupFromProto(g.ToProto(common.GetAppVersion()), nil); err != nil {
			rec.Violation(rt, "C17/group-proto-error", fmt.Sprintf("%v for %s", err, spec), art)
		} else if h := chain.NewChainInfo(gp).Hash(); !bytes.Equal(h, h0) {
			rec.Violation(rt, "C17/chainhash-path-groupproto", fmt.Sprintf("chain hash differs after group proto round trip: %x vs %x for %s", h, h0, spec), art)
		}

		// (2) single-field perturbations of identified parameters
		pert := rapid.IntRange(0, 8).Draw(rt, "perturbation")
		p := *info
		p.GenesisSeed = append([]byte(nil), info.GenesisSeed...)
		var what string
		switch pert {
		case 0:
			p.Period += time.Second
			what = "period+1s"
		case 1:
			if p.Period > time.Second {
				p.Period -= time.Second
			} else {
				p.Period += 2 * time.Second
			}
			what = "period-1s"
		case 2:
			p.GenesisTime++
			what = "genesis+1"
		case 3:
			p.GenesisTime--
			what = "genesis-1"
		case 4:
			other := fx.Pair(spec.Seed, "otherkey", "127.0.0.1:1", net.Scheme)
			p.PublicKey = other.Public.Key
			what = "public key replaced"
		case 5:
			i := rapid.IntRange(0, len(p.GenesisSeed)-1).Draw(rt, "byte")
			p.GenesisSeed[i] ^= byte(1 << rapid.IntRange(0, 7).Draw(rt, "bit"))
			what = "seed bit flipped"
		case 6:
			p.GenesisSeed = append(p.GenesisSeed, byte(rapid.IntRange(0, 255).Draw(rt, "extra")))
			what = "seed extended"
		case 7:
			p.GenesisSeed = p.GenesisSeed[:len(p.GenesisSeed)-1]
			what = "seed truncated"
		case 8:
			p.ID = otherID(p.ID, rapid.IntRange(0, 4).Draw(rt, "idpick"))
			what = fmt.Sprintf("id %q -> %q", info.ID, p.ID)
		}
		if bytes.Equal(p.Hash(), h0) {
			rec.Violation(rt, "C17/chainhash-insensitive", fmt.Sprintf("chain hash unchanged by %s for %s", what, spec), art)
		}
		// the perturbed info under the ORIGINAL hash must be rejected by the JSON decoder
		doc, _ := json.Marshal(&p)
		var m map[string]any
		_ = json.Unmarshal(doc, &m)
		m["chain_hash"] = hex.EncodeToString(h0)
		forged, _ := json.Marshal(m)
		if err := new(chain.Info).UnmarshalJSON(forged); err == nil {
			rec.Violation(rt, "C17/json-accepts-mismatching-hash", fmt.Sprintf("UnmarshalJSON accepted info with %s but the original chain_hash: %s", what, forged), art)
		}
		// ... and so must the perturbed info under a chain_hash that is not even well-formed (the decoder must not fall back to
		// "no hash given" for values it cannot parse)
		{
			hx := hex.EncodeToString(h0)
			bad := rapid.SampledFrom([]string{hx[:len(hx)-1], "zz" + hx[2:], " " + hx, hx + "0", "0x" + hx, "not-a-hash", strings.Repeat("g", 64)}).Draw(rt, "malformedHash")
			_ = json.Unmarshal(doc, &m)
			m["chain_hash"] = bad
			forged3, _ := json.Marshal(m)
			if err := new(chain.Info).UnmarshalJSON(forged3); err == nil {
				rec.Violation(rt, "C17/json-accepts-mismatching-hash", fmt.Sprintf("UnmarshalJSON accepted info with %s under the malformed chain_hash %q", what, bad), art)
			}
		}
		// the original info with another valid-looking hash must be rejected as well
		doc0, _ := json.Marshal(info)
		_ = json.Unmarshal(doc0, &m)
		m["chain_hash"] = hex.EncodeToString(p.Hash())
		forged2, _ := json.Marshal(m)
		if err := new(chain.Info).UnmarshalJSON(forged2); err == nil {
			rec.Violation(rt, "C17/json-accepts-mismatching-hash", fmt.Sprintf("UnmarshalJSON accepted original info under a foreign chain_hash: %s", forged2), art)
		}
		// default id equivalence: "" and "default" hash equal (documented)
		if common.IsDefaultBeaconID(info.ID) {
			q := *info
			if info.ID == "" {
				q.ID = "default"
			} else {
				q.ID = ""
			}
			if !bytes.Equal(q.Hash(), h0) {
				rec.Violation(rt, "C17/default-id-not-equivalent", "\"\" and \"default\" give different chain hashes", art)
			}
		}

		// (3) membership / threshold / transition changes keep the chain hash
		if spec.N >= 2 {
			g2 := cloneGroup(g)
			g2.Nodes = g2.Nodes[:len(g2.Nodes)-1]
			g2.Threshold = len(g2.Nodes)/2 + 1
			g2.TransitionTime = g.TransitionTime + 100
			if !bytes.Equal(chain.NewChainInfo(g2).Hash(), h0) {
				rec.Violation(rt, "C17/chainhash-depends-on-membership", "chain hash changed with membership/threshold/transition for "+spec.String(), art)
			}
		}
		rec.Case(spec.String()+" / "+what, true, "chain/"+fmt.Sprint(pert), "scheme/"+spec.Scheme)
	})
}

// permute returns the i-th of a few deterministic permutations driven by draws.
func drawPerm(rt *rapid.T, n int) []int {
	p := make([]int, n)
	for i := range p {
		p[i] = i
	}
	for i := n - 1; i > 0; i-- {
		j := rapid.IntRange(0, i).Draw(rt, "swap")
		p[i], p[j] = p[j], p[i]
	}
	return p
}

// TestC17GroupHash: permutation invariance and single-field sensitivity of the group hash.
func TestC17GroupHash(t *testing.T) {
	rec := stats.Open(t, "C17")
	rapid.Check(t, func(rt *rapid.T) {
		spec := genGroupSpec(false).Draw(rt, "group")
		net, g := spec.build()
		art := map[string]any{"spec": spec.String()}
		h0 := append([]byte(nil), cloneGroup(g).Hash()...)

		// permutation
		perm := drawPerm(rt, spec.N)
		gp := cloneGroup(g)
		nodes := make([]*key.Node, spec.N)
		for i, j := range perm {
			nodes[i] = gp.Nodes[j]
		}
		gp.Nodes = nodes
		if !bytes.Equal(gp.Hash(), h0) {
			rec.Violation(rt, "C17/grouphash-order-dependent", fmt.Sprintf("group hash depends on node order %v for %s", perm, spec), art)
		}

		pert := rapid.IntRange(0, 11).Draw(rt, "perturbation")
		q := cloneGroup(g)
		what := ""
		expectChange := true
		k := rapid.IntRange(0, spec.N-1).Draw(rt, "node")
		switch pert {
		case 0:
			q.Nodes[k].Identity.Key = fx.Pair(spec.Seed, "replacement", "127.0.0.1:9", net.Scheme).Public.Key
			what = fmt.Sprintf("node %d key replaced", k)
		case 1:
			q.Nodes[k].Index = 1000 + q.Nodes[k].Index
			what = fmt.Sprintf("node %d index changed", k)
		case 2:
			if spec.N < 2 {
				q.Nodes[k].Index += 7
				what = "index changed"
			} else {
				k2 := (k + 1) % spec.N
				q.Nodes[k].Index, q.Nodes[k2].Index = q.Nodes[k2].Index, q.Nodes[k].Index
				what = fmt.Sprintf("indices of nodes %d,%d swapped", k, k2)
			}
		case 3:
			q.Threshold++
			what = "threshold+1"
		case 4:
			q.GenesisTime++
			what = "genesis+1"
		case 5:
			if q.TransitionTime == 0 {
				q.TransitionTime = q.GenesisTime + 50
			} else {
				q.TransitionTime++
			}
			what = "transition changed"
		case 6:
			if q.PublicKey == nil {
				q.PublicKey = &key.DistPublic{Coefficients: net.Shares[0].Commits}
				what = "dist key added"
			} else {
				c := rapid.IntRange(0, len(q.PublicKey.Coefficients)-1).Draw(rt, "coeff")
				q.PublicKey.Coefficients[c] = fx.Pair(spec.Seed, "coeff", "127.0.0.1:9", net.Scheme).Public.Key
				what = fmt.Sprintf("dist key coefficient %d replaced", c)
			}
		case 7:
			q.ID = otherID(q.ID, rapid.IntRange(0, 4).Draw(rt, "idpick"))
			what = "id changed"
		case 8:
			q.Period += time.Second
			what, expectChange = "period+1s (control)", false
		case 9:
			q.CatchupPeriod += time.Second
			what, expectChange = "catchup+1s (control)", false
		case 10:
			q.Nodes[k].Identity.Addr = "10.0.0.1:1234"
			what, expectChange = "address changed (control)", false
		case 11:
			q.Nodes[k].Identity.Signature = []byte{1, 2, 3}
			what, expectChange = "signature changed (control)", false
		}
		changed := !bytes.Equal(q.Hash(), h0)
		if expectChange && !changed {
			rec.Violation(rt, "C17/grouphash-insensitive", fmt.Sprintf("group hash unchanged by %s for %s", what, spec), art)
		}
		if !expectChange {
			if changed {
				rec.Label("control-sensitive/" + what)
			} else {
				rec.Label("control-insensitive/" + what)
			}
		}
		// determinism across TOML and proto round trips
		if gt, err := groupViaTOML(g); err == nil {
			if !bytes.Equal(gt.Hash(), h0) {
				rec.Violation(rt, "C17/grouphash-path-toml", "group hash differs after TOML round trip for "+spec.String(), art)
			}
		} else {
			rec.Violation(rt, "C17/group-toml-error", fmt.Sprintf("%v for %s", err, spec), art)
		}
		rec.Case(spec.String()+" / "+what+fmt.Sprint(perm), spec.N >= 2, "group/"+fmt.Sprint(pert), "scheme/"+spec.Scheme)
	})
}
