package pure

import (
	"bytes"
	"encoding/json"
	"fmt"
	"os"
	"path/filepath"
	"reflect"
	"sort"
	"strings"
	"testing"
	"time"

	"github.com/BurntSushi/toml"
	"github.com/drand/drand/v2/common"
	"github.com/drand/drand/v2/common/chain"
	"github.com/drand/drand/v2/common/key"
	"github.com/drand/drand/v2/internal/dkg"
	pdkg "github.com/drand/drand/v2/protobuf/dkg"
	proto "github.com/drand/drand/v2/protobuf/drand"
	"github.com/drand/drand/v2/verifharness/fx"
	"github.com/drand/drand/v2/verifharness/stats"
	"pgregory.net/rapid"
)

// ---------- field-wise semantic equality (written here, not DBState.Equals / reflect.DeepEqual) ----------

func beq(a, b []byte) bool { return bytes.Equal(a, b) } // nil ≡ empty

func identityDiff(a, b *key.Identity) string {
	switch {
	case a == nil || b == nil:
		if a != b {
			return "identity nil mismatch"
		}
		return ""
	case a.Addr != b.Addr:
		return fmt.Sprintf("addr %q != %q", a.Addr, b.Addr)
	case !a.Key.Equal(b.Key):
		return "key differs"
	case !beq(a.Signature, b.Signature):
		return "signature differs"
	case (a.Scheme == nil) != (b.Scheme == nil) || (a.Scheme != nil && a.Scheme.Name != b.Scheme.Name):
		return "scheme differs"
	}
	return ""
}

type groupCmp struct {
	wholeSeconds bool // proto carries whole seconds only
	canonicalID  bool // "" ≡ "default"
}

func groupDiff(a, b *key.Group, c groupCmp) string {
	if a == nil || b == nil {
		if a != b {
			return "group nil mismatch"
		}
		return ""
	}
	if a.Threshold != b.Threshold {
		return fmt.Sprintf("threshold %d != %d", a.Threshold, b.Threshold)
	}
	if a.Period != b.Period {
		return fmt.Sprintf("period %v != %v", a.Period, b.Period)
	}
	if a.CatchupPeriod != b.CatchupPeriod {
		return fmt.Sprintf("catchup %v != %v", a.CatchupPeriod, b.CatchupPeriod)
	}
	if (a.Scheme == nil) != (b.Scheme == nil) || (a.Scheme != nil && a.Scheme.Name != b.Scheme.Name) {
		return "scheme differs"
	}
	if a.ID != b.ID && !(c.canonicalID && common.CompareBeaconIDs(a.ID, b.ID)) {
		return fmt.Sprintf("id %q != %q", a.ID, b.ID)
	}
	if a.GenesisTime != b.GenesisTime {
		return fmt.Sprintf("genesis %d != %d", a.GenesisTime, b.GenesisTime)
	}
	if a.TransitionTime != b.TransitionTime {
		return fmt.Sprintf("transition %d != %d", a.TransitionTime, b.TransitionTime)
	}
	if !beq(a.GenesisSeed, b.GenesisSeed) {
		return fmt.Sprintf("genesis seed %x != %x", a.GenesisSeed, b.GenesisSeed)
	}
	if len(a.Nodes) != len(b.Nodes) {
		return fmt.Sprintf("node count %d != %d", len(a.Nodes), len(b.Nodes))
	}
	for i := range a.Nodes {
		if a.Nodes[i].Index != b.Nodes[i].Index {
			return fmt.Sprintf("node[%d] index %d != %d", i, a.Nodes[i].Index, b.Nodes[i].Index)
		}
		if d := identityDiff(a.Nodes[i].Identity, b.Nodes[i].Identity); d != "" {
			return fmt.Sprintf("node[%d]: %s", i, d)
		}
	}
	if (a.PublicKey == nil) != (b.PublicKey == nil) {
		return "dist key presence differs"
	}
	if a.PublicKey != nil {
		if len(a.PublicKey.Coefficients) != len(b.PublicKey.Coefficients) {
			return "dist key length differs"
		}
		for i := range a.PublicKey.Coefficients {
			if !a.PublicKey.Coefficients[i].Equal(b.PublicKey.Coefficients[i]) {
				return fmt.Sprintf("dist key coefficient %d differs", i)
			}
		}
	}
	return ""
}

func shareDiff(a, b *key.Share) string {
	if a == nil || b == nil {
		if a != b {
			return "share nil mismatch"
		}
		return ""
	}
	if a.Scheme.Name != b.Scheme.Name {
		return "share scheme differs"
	}
	if a.Share.I != b.Share.I {
		return fmt.Sprintf("share index %d != %d", a.Share.I, b.Share.I)
	}
	if !a.Share.V.Equal(b.Share.V) {
		return "share value differs"
	}
	if len(a.Commits) != len(b.Commits) {
		return "commit count differs"
	}
	for i := range a.Commits {
		if !a.Commits[i].Equal(b.Commits[i]) {
			return fmt.Sprintf("commit %d differs", i)
		}
	}
	return ""
}

func partDiff(name string, a, b []*pdkg.Participant) string {
	if len(a) != len(b) {
		return fmt.Sprintf("%s length %d != %d", name, len(a), len(b))
	}
	for i := range a {
		if d := onePartDiff(a[i], b[i]); d != "" {
			return fmt.Sprintf("%s[%d]: %s", name, i, d)
		}
	}
	return ""
}

func onePartDiff(a, b *pdkg.Participant) string {
	if a == nil || b == nil {
		if a != b {
			return "participant nil mismatch"
		}
		return ""
	}
	if a.Address != b.Address || !beq(a.Key, b.Key) || !beq(a.Signature, b.Signature) {
		return fmt.Sprintf("participant %s/%x/%x != %s/%x/%x", a.Address, a.Key, a.Signature, b.Address, b.Key, b.Signature)
	}
	return ""
}

func stateDiff(a, b *dkg.DBState) string {
	if a == nil || b == nil {
		if a != b {
			return "state nil mismatch"
		}
		return ""
	}
	switch {
	case a.BeaconID != b.BeaconID:
		return "beacon id differs"
	case a.Epoch != b.Epoch:
		return "epoch differs"
	case a.State != b.State:
		return fmt.Sprintf("status %v != %v", a.State, b.State)
	case a.Threshold != b.Threshold:
		return "threshold differs"
	case !a.Timeout.Equal(b.Timeout):
		return fmt.Sprintf("timeout %v != %v", a.Timeout.UTC(), b.Timeout.UTC())
	case a.SchemeID != b.SchemeID:
		return "scheme id differs"
	case !a.GenesisTime.Equal(b.GenesisTime):
		return fmt.Sprintf("genesis time %v != %v", a.GenesisTime.UTC(), b.GenesisTime.UTC())
	case !beq(a.GenesisSeed, b.GenesisSeed):
		return "genesis seed differs"
	case a.CatchupPeriod != b.CatchupPeriod:
		return fmt.Sprintf("catchup period %v != %v", a.CatchupPeriod, b.CatchupPeriod)
	case a.BeaconPeriod != b.BeaconPeriod:
		return fmt.Sprintf("beacon period %v != %v", a.BeaconPeriod, b.BeaconPeriod)
	}
	if d := onePartDiff(a.Leader, b.Leader); d != "" {
		return "leader: " + d
	}
	for _, x := range []struct {
		n    string
		a, b []*pdkg.Participant
	}{{"remaining", a.Remaining, b.Remaining}, {"joining", a.Joining, b.Joining}, {"leaving", a.Leaving, b.Leaving},
		{"acceptors", a.Acceptors, b.Acceptors}, {"rejectors", a.Rejectors, b.Rejectors}} {
		if d := partDiff(x.n, x.a, x.b); d != "" {
			return d
		}
	}
	if d := groupDiff(a.FinalGroup, b.FinalGroup, groupCmp{canonicalID: true}); d != "" {
		return "final group: " + d
	}
	if d := shareDiff(a.KeyShare, b.KeyShare); d != "" {
		return "key share: " + d
	}
	return ""
}

// TestC20FieldGuard fails (harness outdated, exit 2) when a struct grew a field the comparators do not know.
func TestC20FieldGuard(t *testing.T) {
	want := map[string][]string{
		"DBState": {"Acceptors", "BeaconID", "BeaconPeriod", "CatchupPeriod", "Epoch", "FinalGroup", "GenesisSeed", "GenesisTime", "Joining", "KeyShare", "Leader", "Leaving", "Rejectors", "Remaining", "SchemeID", "State", "Threshold", "Timeout"},
		"Group":   {"CatchupPeriod", "GenesisSeed", "GenesisTime", "ID", "Nodes", "Period", "PublicKey", "Scheme", "Threshold", "TransitionTime"},
		"Share":   {"DistKeyShare", "Scheme"},
		"Info":    {"GenesisSeed", "GenesisTime", "ID", "Period", "PublicKey", "Scheme"},
		"Identity": {"Addr", "Key", "Scheme", "Signature"},
		"Beacon":  {"PreviousSig", "Round", "Signature"},
	}
	for name, v := range map[string]any{"DBState": dkg.DBState{}, "Group": key.Group{}, "Share": key.Share{}, "Info": chain.Info{}, "Identity": key.Identity{}, "Beacon": common.Beacon{}} {
		rt := reflect.TypeOf(v)
		var got []string
		for i := 0; i < rt.NumField(); i++ {
			got = append(got, rt.Field(i).Name)
		}
		sort.Strings(got)
		if strings.Join(got, ",") != strings.Join(want[name], ",") {
			t.Fatalf("HARNESS OUTDATED: %s has fields %v, comparator knows %v", name, got, want[name])
		}
	}
}

func scratchDir(t interface{ Fatalf(string, ...any) }) string {
	base := os.Getenv("VERIF_SCRATCH")
	if base == "" {
		base = "/dev/shm"
	}
	d, err := os.MkdirTemp(base, "c20-")
	if err != nil {
		t.Fatalf("mkdtemp: %v", err)
	}
	return d
}

// TestC20Group: group TOML (file) and protobuf round trips, key pair / identity / share round trips, chain info JSON + proto.
func TestC20Group(t *testing.T) {
	rec := stats.Open(t, "C20")
	dir := scratchDir(t)
	defer os.RemoveAll(dir)
	rapid.Check(t, func(rt *rapid.T) {
		spec := genGroupSpec(false).Draw(rt, "group")
		// TOML keeps arbitrary durations
		subSecond := rapid.Bool().Draw(rt, "subsecond")
		net, g := spec.build()
		art := map[string]any{"spec": spec.String()}
		h0 := append([]byte(nil), cloneGroup(g).Hash()...)

		// --- protobuf (whole seconds) ---
		pb := g.ToProto(common.GetAppVersion())
		gp, err := key.GroupFromProto(pb, nil)
		if err != nil {
			rec.Violation(rt, "C20/group-proto-decode-error", fmt.Sprintf("GroupFromProto(ToProto(g)) failed: %v for %s", err, spec), art)
			return
		}
		if d := groupDiff(g, gp, groupCmp{canonicalID: true}); d != "" {
			rec.Violation(rt, "C20/group-proto-roundtrip", fmt.Sprintf("group differs after proto round trip: %s for %s", d, spec), art)
		}
		if !beq(gp.Hash(), h0) {
			rec.Violation(rt, "C20/group-proto-hash", "group hash differs after proto round trip for "+spec.String(), art)
		}
		// fixpoint
		if pb2 := gp.ToProto(common.GetAppVersion()); !protoGroupEq(pb, pb2) {
			rec.Violation(rt, "C20/group-proto-fixpoint", "ToProto(GroupFromProto(ToProto(g))) != ToProto(g) for "+spec.String(), art)
		}

		// --- TOML through a real file ---
		gt := cloneGroup(g)
		if subSecond {
			gt.Period += time.Duration(rapid.IntRange(1, 999).Draw(rt, "ms")) * time.Millisecond
			gt.CatchupPeriod += time.Duration(rapid.IntRange(1, 999999).Draw(rt, "us")) * time.Microsecond
		}
		f := filepath.Join(dir, "group.toml")
		if err := key.Save(f, gt, false); err != nil {
			rt.Fatalf("save: %v", err)
		}
		var back key.Group
		if err := key.Load(f, &back); err != nil {
			rec.Violation(rt, "C20/group-toml-decode-error", fmt.Sprintf("Load(Save(g)) failed: %v for %s", err, spec), art)
			return
		}
		if d := groupDiff(gt, &back, groupCmp{canonicalID: true}); d != "" {
			rec.Violation(rt, "C20/group-toml-roundtrip", fmt.Sprintf("group differs after TOML round trip: %s for %s", d, spec), art)
		}
		if !beq(back.Hash(), h0) {
			rec.Violation(rt, "C20/group-toml-hash", "group hash differs after TOML round trip for "+spec.String(), art)
		}
		if !gt.Equal(&back) {
			rec.Violation(rt, "C20/group-toml-own-equal", "Group.Equal says the reloaded group differs for "+spec.String(), art)
		}

		// --- key pair, identity, share ---
		k := rapid.IntRange(0, spec.N-1).Draw(rt, "node")
		pair := net.Pairs[k]
		pf := filepath.Join(dir, "id.private")
		uf := filepath.Join(dir, "id.public")
		if err := key.Save(pf, pair, true); err != nil {
			rt.Fatalf("save pair: %v", err)
		}
		if err := key.Save(uf, pair.Public, false); err != nil {
			rt.Fatalf("save pub: %v", err)
		}
		p2 := new(key.Pair)
		if err := key.Load(pf, p2); err != nil {
			rec.Violation(rt, "C20/pair-decode-error", err.Error(), art)
			return
		}
		if err := key.Load(uf, p2.Public); err != nil {
			rec.Violation(rt, "C20/identity-decode-error", err.Error(), art)
			return
		}
		if !p2.Key.Equal(pair.Key) {
			rec.Violation(rt, "C20/pair-roundtrip", "private scalar differs after TOML round trip", art)
		}
		if d := identityDiff(pair.Public, p2.Public); d != "" {
			rec.Violation(rt, "C20/identity-toml-roundtrip", d, art)
		}
		if !beq(pair.Public.Hash(), p2.Public.Hash()) || p2.Public.ValidSignature() != nil {
			rec.Violation(rt, "C20/identity-toml-hash", "identity hash / self-signature not preserved", art)
		}
		ip, err := key.IdentityFromProto(pair.Public.ToProto(), net.Scheme)
		if err != nil {
			rec.Violation(rt, "C20/identity-proto-decode-error", err.Error(), art)
		} else if d := identityDiff(pair.Public, ip); d != "" {
			rec.Violation(rt, "C20/identity-proto-roundtrip", d, art)
		}
		sh := net.Shares[k]
		sf := filepath.Join(dir, "share.private")
		if err := key.Save(sf, sh, true); err != nil {
			rt.Fatalf("save share: %v", err)
		}
		s2 := new(key.Share)
		if err := key.Load(sf, s2); err != nil {
			rec.Violation(rt, "C20/share-decode-error", err.Error(), art)
			return
		}
		if d := shareDiff(sh, s2); d != "" {
			rec.Violation(rt, "C20/share-roundtrip", d+" for "+spec.String(), art)
		}
		if !s2.PubPoly().Check(s2.PrivateShare()) {
			rec.Violation(rt, "C20/share-roundtrip", "reloaded share is not on its own public polynomial", art)
		}

		// --- chain info ---
		if g.PublicKey != nil {
			info := chain.NewChainInfo(g)
			paths, err := infoPaths(info)
			if err != nil {
				rec.Violation(rt, "C20/info-decode-error", err.Error(), art)
				return
			}
			for name, i2 := range paths {
				if d := infoDiff(info, i2); d != "" {
					rec.Violation(rt, "C20/info-roundtrip-"+name, d+" for "+spec.String(), art)
				}
				if !beq(info.Hash(), i2.Hash()) {
					rec.Violation(rt, "C20/info-hash-"+name, "chain hash differs after "+name+" round trip", art)
				}
			}
		}
		nt := spec.N >= 2 && (spec.HasDist || spec.Transition != 0 || spec.SeedKind != 0)
		rec.Case(spec.String()+fmt.Sprintf(" sub=%v node=%d", subSecond, k), nt, "group", "scheme/"+spec.Scheme)
	})
}

func infoDiff(a, b *chain.Info) string {
	switch {
	case !a.PublicKey.Equal(b.PublicKey):
		return "info public key differs"
	case !common.CompareBeaconIDs(a.ID, b.ID):
		return fmt.Sprintf("info id %q != %q", a.ID, b.ID)
	case a.Period != b.Period:
		return fmt.Sprintf("info period %v != %v", a.Period, b.Period)
	case a.Scheme != b.Scheme:
		return "info scheme differs"
	case a.GenesisTime != b.GenesisTime:
		return "info genesis differs"
	case !beq(a.GenesisSeed, b.GenesisSeed):
		return "info seed differs"
	}
	return ""
}

func protoGroupEq(a, b *proto.GroupPacket) bool {
	if len(a.Nodes) != len(b.Nodes) || a.Threshold != b.Threshold || a.Period != b.Period || a.GenesisTime != b.GenesisTime ||
		a.TransitionTime != b.TransitionTime || !beq(a.GenesisSeed, b.GenesisSeed) || len(a.DistKey) != len(b.DistKey) ||
		a.CatchupPeriod != b.CatchupPeriod || a.SchemeID != b.SchemeID || a.Metadata.GetBeaconID() != b.Metadata.GetBeaconID() {
		return false
	}
	for i := range a.Nodes {
		if a.Nodes[i].Index != b.Nodes[i].Index || a.Nodes[i].Public.Address != b.Nodes[i].Public.Address ||
			!beq(a.Nodes[i].Public.Key, b.Nodes[i].Public.Key) || !beq(a.Nodes[i].Public.Signature, b.Nodes[i].Public.Signature) {
			return false
		}
	}
	for i := range a.DistKey {
		if !beq(a.DistKey[i], b.DistKey[i]) {
			return false
		}
	}
	return true
}

// TestC20Reject: decoders reject out-of-range thresholds and unknown schemes on every path.
func TestC20Reject(t *testing.T) {
	rec := stats.Open(t, "C20")
	rapid.Check(t, func(rt *rapid.T) {
		spec := genGroupSpec(false).Draw(rt, "group")
		_, g := spec.build()
		art := map[string]any{"spec": spec.String()}
		minT := spec.N/2 + 1
		kind := rapid.IntRange(0, 6).Draw(rt, "bad")
		var badT int
		badScheme := ""
		switch kind {
		case 0:
			badT = 0
		case 1:
			badT = minT - 1
		case 2:
			badT = spec.N + 1
		case 3:
			badT = spec.N + rapid.IntRange(2, 1000).Draw(rt, "over")
		case 4:
			badT = 1 << 31 >> 1 // 2^30, far above n but within int32 for TOML
		case 5:
			badScheme = "no-such-scheme"
		case 6:
			badScheme = strings.ToUpper(spec.Scheme)
		}
		what := fmt.Sprintf("threshold=%d (n=%d,min=%d)", badT, spec.N, minT)
		// TOML path
		gt := g.TOML().(*key.GroupTOML)
		pb := g.ToProto(common.GetAppVersion())
		if badScheme != "" {
			gt.SchemeID = badScheme
			pb.SchemeID = badScheme
			what = "scheme=" + badScheme
		} else {
			gt.Threshold = badT
			pb.Threshold = uint32(badT)
			if g.PublicKey != nil {
				// keep the packet otherwise self-consistent: the coefficient count check must not be what rejects it
				pb.DistKey = nil
			}
		}
		var buf bytes.Buffer
		if err := toml.NewEncoder(&buf).Encode(gt); err != nil {
			rt.Fatalf("encode: %v", err)
		}
		dec := &key.GroupTOML{}
		if _, err := toml.NewDecoder(&buf).Decode(dec); err != nil {
			rt.Fatalf("toml decode: %v", err)
		}
		if err := new(key.Group).FromTOML(dec); err == nil {
			rec.Violation(rt, "C20/toml-accepts-bad-group", "Group.FromTOML accepted "+what+" for "+spec.String(), art)
		}
		if _, err := key.GroupFromProto(pb, nil); err == nil {
			key := "C20/proto-accepts-bad-scheme"
			if badScheme == "" {
				if badT > spec.N {
					key = "C20/proto-accepts-threshold-above-n"
				} else {
					key = "C20/proto-accepts-threshold-below-min"
				}
			}
			rec.Violation(rt, key, "GroupFromProto accepted "+what+" for "+spec.String(), art)
		}
		rec.Case(spec.String()+" bad="+what, true, "reject/"+fmt.Sprint(kind))
	})
}

// TestC20Beacon: beacon JSON and hex bytes with arbitrary byte strings.
func TestC20Beacon(t *testing.T) {
	rec := stats.Open(t, "C20")
	rapid.Check(t, func(rt *rapid.T) {
		b := &common.Beacon{
			Round:       rapid.OneOf(rapid.Uint64(), rapid.Uint64Range(0, 10)).Draw(rt, "round"),
			Signature:   rapid.SliceOfN(rapid.Byte(), 0, 120).Draw(rt, "sig"),
			PreviousSig: rapid.SliceOfN(rapid.Byte(), 0, 120).Draw(rt, "prev"),
		}
		if rapid.Bool().Draw(rt, "nilprev") {
			b.PreviousSig = nil
		}
		enc, err := b.Marshal()
		if err != nil {
			rec.Violation(rt, "C20/beacon-encode-error", err.Error(), nil)
			return
		}
		var back common.Beacon
		if err := back.Unmarshal(enc); err != nil {
			rec.Violation(rt, "C20/beacon-decode-error", fmt.Sprintf("%v for %s", err, enc), nil)
			return
		}
		if back.Round != b.Round || !beq(back.Signature, b.Signature) || !beq(back.PreviousSig, b.PreviousSig) || !back.Equal(b) {
			rec.Violation(rt, "C20/beacon-roundtrip", fmt.Sprintf("beacon differs after JSON round trip: %s", enc), map[string]any{"json": string(enc)})
		}
		if !beq(back.Randomness(), b.Randomness()) {
			rec.Violation(rt, "C20/beacon-randomness", "randomness differs after round trip", nil)
		}
		enc2, _ := back.Marshal()
		if !bytes.Equal(enc, enc2) {
			rec.Violation(rt, "C20/beacon-fixpoint", fmt.Sprintf("%s != %s", enc, enc2), nil)
		}
		// HexBytes inside another struct
		type wrap struct {
			A common.HexBytes `json:"a"`
		}
		w := wrap{A: b.Signature}
		wb, _ := json.Marshal(w)
		var w2 wrap
		if err := json.Unmarshal(wb, &w2); err != nil || !beq(w.A, w2.A) {
			rec.Violation(rt, "C20/hexbytes-roundtrip", fmt.Sprintf("%s", wb), nil)
		}
		rec.Case("beacon "+string(enc), len(b.Signature) > 0, "beacon")
	})
}

func genParticipant(label string) *rapid.Generator[*pdkg.Participant] {
	return rapid.Custom(func(t *rapid.T) *pdkg.Participant {
		p := &pdkg.Participant{
			Address: fmt.Sprintf("node%d.example.org:%d", rapid.IntRange(0, 50).Draw(t, label+"host"), rapid.IntRange(1, 65535).Draw(t, label+"port")),
			Key:     rapid.SliceOfN(rapid.Byte(), 1, 96).Draw(t, label+"key"),
		}
		switch rapid.IntRange(0, 2).Draw(t, label+"sigkind") {
		case 0:
			p.Signature = nil
		case 1:
			p.Signature = []byte{}
		default:
			p.Signature = rapid.SliceOfN(rapid.Byte(), 1, 96).Draw(t, label+"sig")
		}
		return p
	})
}

func genParts(label string) *rapid.Generator[[]*pdkg.Participant] {
	return rapid.Custom(func(t *rapid.T) []*pdkg.Participant {
		n := rapid.IntRange(0, 4).Draw(t, label+"n")
		if n == 0 {
			if rapid.Bool().Draw(t, label+"nil") {
				return nil
			}
			return []*pdkg.Participant{}
		}
		out := make([]*pdkg.Participant, n)
		for i := range out {
			out[i] = genParticipant(label).Draw(t, label)
		}
		return out
	})
}

func genTime(label string) *rapid.Generator[time.Time] {
	return rapid.Custom(func(t *rapid.T) time.Time {
		sec := rapid.Int64Range(0, 4102444800).Draw(t, label+"sec")
		ns := rapid.OneOf(rapid.Just(int64(0)), rapid.Int64Range(0, 999999999)).Draw(t, label+"ns")
		tm := time.Unix(sec, ns)
		if rapid.Bool().Draw(t, label+"utc") {
			tm = tm.UTC()
		}
		return tm
	})
}

// TestC20DBState: DKG database record through the real bolt dkg.db (SaveCurrent / SaveFinished, reopen, Get*).
func TestC20DBState(t *testing.T) {
	rec := stats.Open(t, "C20")
	dir := scratchDir(t)
	defer os.RemoveAll(dir)
	rapid.Check(t, func(rt *rapid.T) {
		status := dkg.Status(rapid.IntRange(0, 11).Draw(rt, "status"))
		withFinal := rapid.Bool().Draw(rt, "final")
		st := &dkg.DBState{
			BeaconID:      genID().Draw(rt, "id"),
			Epoch:         rapid.Uint32Range(0, 1000).Draw(rt, "epoch"),
			State:         status,
			Threshold:     rapid.Uint32Range(0, 20).Draw(rt, "thr"),
			Timeout:       genTime("timeout").Draw(rt, "timeout"),
			SchemeID:      rapid.SampledFrom(fx.SchemeNames).Draw(rt, "scheme"),
			GenesisTime:   genTime("genesis").Draw(rt, "genesis"),
			GenesisSeed:   rapid.SliceOfN(rapid.Byte(), 0, 40).Draw(rt, "seed"),
			CatchupPeriod: time.Duration(rapid.Int64Range(0, int64(time.Hour)).Draw(rt, "catchup")),
			BeaconPeriod:  time.Duration(rapid.Int64Range(0, int64(48*time.Hour)).Draw(rt, "period")),
			Remaining:     genParts("rem").Draw(rt, "remaining"),
			Joining:       genParts("join").Draw(rt, "joining"),
			Leaving:       genParts("leave").Draw(rt, "leaving"),
			Acceptors:     genParts("acc").Draw(rt, "acceptors"),
			Rejectors:     genParts("rej").Draw(rt, "rejectors"),
		}
		if rapid.Bool().Draw(rt, "hasleader") {
			st.Leader = genParticipant("leader").Draw(rt, "leader")
		}
		desc := fmt.Sprintf("state{%v epoch=%d final=%v timeout=%d.%09d period=%v catchup=%v parts=%d/%d/%d/%d/%d", status, st.Epoch, withFinal,
			st.Timeout.Unix(), st.Timeout.Nanosecond(), st.BeaconPeriod, st.CatchupPeriod, len(st.Remaining), len(st.Joining), len(st.Leaving), len(st.Acceptors), len(st.Rejectors))
		if withFinal {
			spec := genGroupSpec(true).Draw(rt, "group")
			spec.Scheme = st.SchemeID
			net, g := spec.build()
			st.FinalGroup = g
			st.KeyShare = net.Shares[rapid.IntRange(0, spec.N-1).Draw(rt, "sharepos")]
			desc += " " + spec.String()
		}
		desc += "}"
		art := map[string]any{"state": desc}
		finished := rapid.Bool().Draw(rt, "finishedBucket")
		sub, err := os.MkdirTemp(dir, "db")
		if err != nil {
			rt.Fatalf("%v", err)
		}
		defer os.RemoveAll(sub)
		store, err := dkg.NewDKGStore(sub)
		if err != nil {
			rt.Fatalf("open: %v", err)
		}
		id := st.BeaconID
		if id == "" {
			id = "default"
			st.BeaconID = id
		}
		if finished {
			err = store.SaveFinished(id, st)
		} else {
			err = store.SaveCurrent(id, st)
		}
		if err != nil {
			_ = store.Close()
			rec.Violation(rt, "C20/dbstate-encode-error", fmt.Sprintf("save failed: %v for %s", err, desc), art)
			return
		}
		_ = store.Close()
		store, err = dkg.NewDKGStore(sub)
		if err != nil {
			rt.Fatalf("reopen: %v", err)
		}
		defer store.Close()
		var back, back2 *dkg.DBState
		if finished {
			back, err = store.GetFinished(id)
			if err == nil {
				back2, err = store.GetCurrent(id)
			}
		} else {
			back, err = store.GetCurrent(id)
		}
		if err != nil {
			rec.Violation(rt, "C20/dbstate-decode-error", fmt.Sprintf("reload failed: %v for %s", err, desc), art)
			return
		}
		if d := stateDiff(st, back); d != "" {
			rec.Violation(rt, "C20/dbstate-roundtrip", fmt.Sprintf("DKG record differs after dkg.db round trip: %s; %s", d, desc), art)
		}
		if back2 != nil {
			if d := stateDiff(st, back2); d != "" {
				rec.Violation(rt, "C20/dbstate-roundtrip", fmt.Sprintf("current record written by SaveFinished differs: %s; %s", d, desc), art)
			}
		}
		if st.FinalGroup != nil && back.FinalGroup != nil && !beq(cloneGroup(st.FinalGroup).Hash(), back.FinalGroup.Hash()) {
			rec.Violation(rt, "C20/dbstate-group-hash", "final group hash differs after dkg.db round trip; "+desc, art)
		}
		rec.Case(desc, withFinal || len(st.Remaining)+len(st.Joining) > 0, "dbstate/"+status.String(), fmt.Sprintf("dbstate-final=%v", withFinal))
	})
}
