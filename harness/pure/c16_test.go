package pure

import (
	"fmt"
	"math"
	"math/big"
	"testing"
	"time"

	"github.com/drand/drand/v2/common"
	"github.com/drand/drand/v2/verifharness/stats"
	"pgregory.net/rapid"
)

// ---- reference (math/big) ----

var (
	bigMaxI64 = big.NewInt(math.MaxInt64)
	bigBuf    = new(big.Int).Lsh(big.NewInt(1), 36)
	bigErrVal = new(big.Int).Sub(bigMaxI64, bigBuf)
	bigTwo50  = new(big.Int).Lsh(big.NewInt(1), 50)
)

// refT is T(r) = genesis + (r-1)*period, T(0) = genesis.
func refT(periodS uint64, genesis int64, round uint64) *big.Int {
	g := big.NewInt(genesis)
	if round == 0 {
		return g
	}
	d := new(big.Int).SetUint64(round - 1)
	d.Mul(d, new(big.Int).SetUint64(periodS))
	return d.Add(d, g)
}

// refCurrent is the unique r>=1 with T(r) <= t < T(r+1), for t >= genesis.
func refCurrent(periodS uint64, genesis, t int64) *big.Int {
	d := new(big.Int).Sub(big.NewInt(t), big.NewInt(genesis))
	d.Div(d, new(big.Int).SetUint64(periodS))
	return d.Add(d, big.NewInt(1))
}

type failer interface {
	Helper()
	Fatalf(string, ...any)
}

// checkInstant checks CurrentRound/NextRound at instant t (t >= genesis) against the reference.
func checkInstant(t failer, rec *stats.Rec, periodS uint64, genesis, now int64) {
	t.Helper()
	period := time.Duration(periodS) * time.Second
	want := refCurrent(periodS, genesis, now)
	cur := common.CurrentRound(now, period, genesis)
	nr, nt := common.NextRound(now, period, genesis)
	art := map[string]any{"period_s": periodS, "genesis": genesis, "now": now, "current": cur, "next": nr, "next_time": nt, "want_current": want.String()}
	if !want.IsUint64() || cur != want.Uint64() {
		rec.Violation(t, "C16/current-round", fmt.Sprintf("CurrentRound(now=%d, period=%ds, genesis=%d) = %d, reference %s", now, periodS, genesis, cur, want), art)
		return
	}
	// uniqueness clause re-stated directly: T(cur) <= now < T(cur+1)
	if refT(periodS, genesis, cur).Cmp(big.NewInt(now)) > 0 || refT(periodS, genesis, cur+1).Cmp(big.NewInt(now)) <= 0 {
		rec.Violation(t, "C16/current-round-bracket", fmt.Sprintf("T(%d) <= %d < T(%d) does not hold (period=%ds genesis=%d)", cur, now, cur+1, periodS, genesis), art)
		return
	}
	if nr != cur+1 {
		rec.Violation(t, "C16/next-round", fmt.Sprintf("NextRound(now=%d, period=%ds, genesis=%d) round = %d, want %d", now, periodS, genesis, nr, cur+1), art)
		return
	}
	if wt := refT(periodS, genesis, cur+1); !wt.IsInt64() || wt.Int64() != nt {
		rec.Violation(t, "C16/next-time", fmt.Sprintf("NextRound(now=%d, period=%ds, genesis=%d) time = %d, want %s", now, periodS, genesis, nt, wt), art)
		return
	}
	// TimeOfRound agrees for these schedulable rounds
	if tor := common.TimeOfRound(period, genesis, nr); tor != nt {
		rec.Violation(t, "C16/time-of-next", fmt.Sprintf("TimeOfRound(period=%ds, genesis=%d, round=%d) = %d but NextRound time = %d", periodS, genesis, nr, tor, nt), art)
	}
}

// checkTimeOfRound checks one (period, genesis, round) triple against the reference clauses.
func checkTimeOfRound(t failer, rec *stats.Rec, periodS uint64, genesis int64, round uint64) (isErr bool) {
	t.Helper()
	period := time.Duration(periodS) * time.Second
	got := common.TimeOfRound(period, genesis, round)
	want := refT(periodS, genesis, round)
	art := map[string]any{"period_s": periodS, "genesis": genesis, "round": round, "got": got, "want": want.String()}
	if got < 0 {
		rec.Violation(t, "C16/negative-time", fmt.Sprintf("TimeOfRound(period=%ds, genesis=%d, round=%d) = %d is negative", periodS, genesis, round, got), art)
		return
	}
	if got == common.TimeOfRoundErrorValue {
		// must not be the error value while T(r) <= genesis + 2^50
		lim := new(big.Int).Add(big.NewInt(genesis), bigTwo50)
		if want.Cmp(lim) <= 0 {
			rec.Violation(t, "C16/spurious-error-value", fmt.Sprintf("TimeOfRound(period=%ds, genesis=%d, round=%d) returned the error value but T(r)=%s is schedulable", periodS, genesis, round, want), art)
		}
		return true
	}
	if !want.IsInt64() || want.Int64() != got {
		rec.Violation(t, "C16/wrapped-time", fmt.Sprintf("TimeOfRound(period=%ds, genesis=%d, round=%d) = %d, reference T(r) = %s (neither exact nor the error value)", periodS, genesis, round, got, want), art)
		return
	}
	if want.Cmp(bigErrVal) > 0 {
		rec.Violation(t, "C16/missing-error-value", fmt.Sprintf("TimeOfRound(period=%ds, genesis=%d, round=%d) = %d beyond the reserved buffer", periodS, genesis, round, got), art)
	}
	return false
}

// TestC16Grid enumerates the small grid completely.
func TestC16Grid(t *testing.T) {
	if stats.Shard() != 0 {
		t.Skip("grid runs in shard 0 only")
	}
	rec := stats.Open(t, "C16")
	rec.Exhaustive(true)
	for p := uint64(1); p <= 12; p++ {
		for _, g := range []int64{0, 1, 7, 100} {
			var lastT int64 = -1
			for off := int64(0); off <= 200; off++ {
				checkInstant(t, rec, p, g, g+off)
				rec.Case(fmt.Sprintf("grid p=%d g=%d off=%d", p, g, off), true, "grid")
			}
			for r := uint64(1); r <= 250; r++ {
				isErr := checkTimeOfRound(t, rec, p, g, r)
				if isErr {
					t.Fatalf("unexpected error value in grid")
				}
				v := common.TimeOfRound(time.Duration(p)*time.Second, g, r)
				if r > 1 && v <= lastT {
					rec.Violation(t, "C16/not-increasing", fmt.Sprintf("TimeOfRound not strictly increasing at p=%d g=%d r=%d", p, g, r), nil)
				}
				lastT = v
				rec.Case(fmt.Sprintf("gridT p=%d g=%d r=%d", p, g, r), true, "grid-time")
			}
			// before genesis: round 1 is next, current is... CurrentRound returns nextRound (1)
			if g > 0 {
				nr, nt := common.NextRound(g-1, time.Duration(p)*time.Second, g)
				if nr != 1 || nt != g {
					rec.Violation(t, "C16/pre-genesis", fmt.Sprintf("NextRound before genesis = (%d,%d)", nr, nt), nil)
				}
			}
		}
	}
}

func genPeriod() *rapid.Generator[uint64] {
	return rapid.OneOf(
		rapid.Uint64Range(1, 120),
		rapid.Uint64Range(1, math.MaxUint32),
		rapid.Custom(func(t *rapid.T) uint64 { // log-uniform
			b := rapid.IntRange(0, 31).Draw(t, "pbits")
			lo := uint64(1) << b
			return rapid.Uint64Range(lo, lo*2-1).Draw(t, "p")
		}),
		rapid.SampledFrom([]uint64{1, 2, 3, 7, 15, 16, 17, 30, 60, 255, 256, 257, 65535, 65536, 1<<31 - 1, 1 << 31, 1<<32 - 2, 1<<32 - 1}),
	)
}

func genGenesis() *rapid.Generator[int64] {
	return rapid.OneOf(
		rapid.Int64Range(0, 1<<32),
		rapid.SampledFrom([]int64{0, 1, 1590000000, 1692803367, 1<<31 - 1, 1 << 31, 1<<32 - 1, 1 << 32}),
	)
}

func genOffset() *rapid.Generator[int64] {
	return rapid.OneOf(
		rapid.Int64Range(0, 1<<50),
		rapid.Custom(func(t *rapid.T) int64 {
			b := rapid.IntRange(0, 49).Draw(t, "obits")
			lo := int64(1) << b
			return rapid.Int64Range(lo, lo*2-1).Draw(t, "o")
		}),
	)
}

// TestC16Instant: random and boundary-directed instants.
func TestC16Instant(t *testing.T) {
	rec := stats.Open(t, "C16")
	rapid.Check(t, func(rt *rapid.T) {
		p := genPeriod().Draw(rt, "period")
		g := genGenesis().Draw(rt, "genesis")
		mode := rapid.IntRange(0, 2).Draw(rt, "mode")
		var now int64
		label := "random-instant"
		switch mode {
		case 0:
			now = g + genOffset().Draw(rt, "offset")
		default:
			// boundary-directed: T(r)-1, T(r), T(r)+1 with T(r) <= genesis + 2^50
			maxR := (uint64(1)<<50)/p + 1
			r := rapid.OneOf(rapid.Uint64Range(1, maxR), rapid.Uint64Range(maxR-min64(maxR-1, 3), maxR), rapid.Uint64Range(1, 5)).Draw(rt, "round")
			tr := refT(p, g, r).Int64()
			d := rapid.Int64Range(-1, 1).Draw(rt, "delta")
			now = tr + d
			if now < g {
				now = g
			}
			if now > g+(1<<50) {
				now = g + (1 << 50)
			}
			label = "boundary-instant"
		}
		checkInstant(rt, rec, p, g, now)
		rec.Case(fmt.Sprintf("p=%d g=%d now=%d", p, g, now), label == "boundary-instant" || p > 1, label)
	})
}

func min64(a, b uint64) uint64 {
	if a < b {
		return a
	}
	return b
}

// guardRound returns the first round the overflow guard refuses for period p, re-derived here.
func guardRound(p uint64) uint64 {
	bits := int(math.Log2(float64(p) + 1))
	return math.MaxUint64 >> (bits + 2)
}

// TestC16Rounds: all 64-bit rounds for TimeOfRound: uniform, powers of two ±1, guard-adjacent,
// plus monotonicity on adjacent pairs.
func TestC16Rounds(t *testing.T) {
	rec := stats.Open(t, "C16")
	rapid.Check(t, func(rt *rapid.T) {
		p := genPeriod().Draw(rt, "period")
		g := genGenesis().Draw(rt, "genesis")
		mode := rapid.IntRange(0, 4).Draw(rt, "mode")
		var r uint64
		label := "uniform-round"
		switch mode {
		case 0:
			r = rapid.Uint64().Draw(rt, "round")
		case 1:
			b := rapid.IntRange(0, 63).Draw(rt, "bit")
			r = (uint64(1) << b) + uint64(rapid.IntRange(-1, 1).Draw(rt, "d"))
			label = "pow2-round"
		case 2:
			gr := guardRound(p)
			r = gr + uint64(rapid.IntRange(-2, 2).Draw(rt, "d"))
			label = "guard-adjacent"
		case 3:
			// around the value where T(r) crosses MaxInt64 - 2^36
			lim := new(big.Int).Sub(bigErrVal, big.NewInt(g))
			lim.Div(lim, new(big.Int).SetUint64(p))
			if lim.IsUint64() {
				r = lim.Uint64() + 1 + uint64(rapid.IntRange(-2, 2).Draw(rt, "d"))
			} else {
				r = math.MaxUint64 - uint64(rapid.IntRange(0, 3).Draw(rt, "d"))
			}
			label = "buffer-adjacent"
		default:
			maxR := (uint64(1)<<50)/p + 1
			r = rapid.Uint64Range(0, maxR).Draw(rt, "round")
			label = "schedulable-round"
		}
		e1 := checkTimeOfRound(rt, rec, p, g, r)
		if r < math.MaxUint64 {
			e2 := checkTimeOfRound(rt, rec, p, g, r+1)
			period := time.Duration(p) * time.Second
			a, b := common.TimeOfRound(period, g, r), common.TimeOfRound(period, g, r+1)
			if !e1 && !e2 && r >= 1 && !(a < b) {
				rec.Violation(rt, "C16/not-increasing", fmt.Sprintf("TimeOfRound(p=%d,g=%d): T(%d)=%d !< T(%d)=%d", p, g, r, a, r+1, b), nil)
			}
			if e1 && !e2 && r >= 1 {
				rec.Violation(rt, "C16/error-then-value", fmt.Sprintf("TimeOfRound(p=%d,g=%d): round %d is the error value but %d is %d", p, g, r, r+1, b), nil)
			}
		}
		rec.Case(fmt.Sprintf("p=%d g=%d r=%d", p, g, r), label != "uniform-round", label)
	})
}
