package pure

import (
	"fmt"
	"time"

	"github.com/drand/drand/v2/common/key"
	"github.com/drand/drand/v2/verifharness/fx"
	"github.com/drand/kyber"
	"pgregory.net/rapid"
)

// groupSpec is the structural (shrinkable) description of a generated group; key bytes follow from Seed.
type groupSpec struct {
	Seed       uint64
	Scheme     string
	N, T       int
	PeriodS    uint32
	CatchupS   uint32
	Genesis    int64
	Transition int64
	ID         string
	HasDist    bool
	SeedKind   int // 0 computed (hash of group), 1 random 32 bytes, 2 other length
	SeedLen    int
	SparseIdx  bool
}

func (s groupSpec) String() string {
	return fmt.Sprintf("group{seed=%d %s n=%d t=%d period=%ds catchup=%ds genesis=%d transition=%d id=%q dist=%v seedkind=%d/%d sparse=%v}",
		s.Seed, s.Scheme, s.N, s.T, s.PeriodS, s.CatchupS, s.Genesis, s.Transition, s.ID, s.HasDist, s.SeedKind, s.SeedLen, s.SparseIdx)
}

func genID() *rapid.Generator[string] {
	return rapid.OneOf(
		rapid.SampledFrom([]string{"", "default", "quicknet", "evmnet", "a", "b"}),
		rapid.StringMatching(`[a-z0-9_-]{1,12}`),
	)
}

func genGroupSpec(requireDist bool) *rapid.Generator[groupSpec] {
	return rapid.Custom(func(t *rapid.T) groupSpec {
		n := rapid.IntRange(1, 10).Draw(t, "n")
		minT := n/2 + 1
		s := groupSpec{
			Seed:      rapid.Uint64Range(1, 1<<40).Draw(t, "keyseed"),
			Scheme:    rapid.SampledFrom(fx.SchemeNames).Draw(t, "scheme"),
			N:         n,
			T:         rapid.IntRange(minT, n).Draw(t, "t"),
			PeriodS:   rapid.OneOf(rapid.Uint32Range(1, 120), rapid.Uint32Range(1, 1<<31)).Draw(t, "period"),
			CatchupS:  rapid.Uint32Range(0, 60).Draw(t, "catchup"),
			Genesis:   rapid.OneOf(rapid.Int64Range(1, 1<<33), rapid.Int64Range(1500000000, 1900000000)).Draw(t, "genesis"),
			ID:        genID().Draw(t, "id"),
			HasDist:   requireDist || rapid.IntRange(0, 3).Draw(t, "hasdist") > 0,
			SeedKind:  rapid.IntRange(0, 2).Draw(t, "seedkind"),
			SparseIdx: rapid.Bool().Draw(t, "sparse"),
		}
		if rapid.Bool().Draw(t, "hastransition") {
			s.Transition = s.Genesis + rapid.Int64Range(1, 1<<30).Draw(t, "transition")
		}
		if s.SeedKind == 2 {
			s.SeedLen = rapid.SampledFrom([]int{1, 16, 31, 33, 64}).Draw(t, "seedlen")
		}
		return s
	})
}

// build materialises the group (and the net holding its secrets).
func (s groupSpec) build() (*fx.Net, *key.Group) {
	o := fx.Opts{Scheme: s.Scheme, N: s.N, T: s.T, Period: time.Duration(s.PeriodS) * time.Second,
		Catchup: time.Duration(s.CatchupS) * time.Second, Genesis: s.Genesis, BeaconID: s.ID}
	if s.SparseIdx {
		idx := make([]uint32, s.N)
		for i := range idx {
			idx[i] = uint32(i*2 + 1)
		}
		o.Indices = idx
	}
	net := fx.NewNet(s.Seed, o)
	g := net.Group
	g.TransitionTime = s.Transition
	if !s.HasDist {
		g.PublicKey = nil
	}
	switch s.SeedKind {
	case 0:
		g.GenesisSeed = nil
		g.GetGenesisSeed()
	case 1:
		g.GenesisSeed = fx.Bytes(s.Seed, "gseed", 32)
	default:
		g.GenesisSeed = fx.Bytes(s.Seed, "gseed", s.SeedLen)
	}
	return net, g
}

// cloneGroup makes a deep-enough copy for perturbation (nodes and identities are copied; points are shared, never mutated).
func cloneGroup(g *key.Group) *key.Group {
	c := *g
	c.Nodes = make([]*key.Node, len(g.Nodes))
	for i, n := range g.Nodes {
		id := *n.Identity
		id.Signature = append([]byte(nil), n.Identity.Signature...)
		c.Nodes[i] = &key.Node{Identity: &id, Index: n.Index}
	}
	c.GenesisSeed = append([]byte(nil), g.GenesisSeed...)
	if g.PublicKey != nil {
		c.PublicKey = &key.DistPublic{Coefficients: append([]kyber.Point(nil), g.PublicKey.Coefficients...)}
	}
	return &c
}
