package beaconnet

import (
	"context"
	"fmt"
	"strings"
	"testing"
	"time"

	"github.com/drand/drand/v2/verifharness/fx"
	"github.com/drand/drand/v2/verifharness/stats"
	"pgregory.net/rapid"
)

// TestC03Threshold: sync is off and every link is queued, so the harness decides exactly which partials reach which node.
// Per round each observer receives the partials of a drawn subset of the other members (sizes around the threshold) mixed with junk.
func TestC03Threshold(t *testing.T) {
	rec := stats.Open(t, "C03")
	rapid.Check(t, func(rt *rapid.T) {
		n := rapid.IntRange(2, 6).Draw(rt, "n")
		cfg := Config{
			Seed:    rapid.Uint64Range(1, 1<<32).Draw(rt, "keyseed"),
			Scheme:  rapid.SampledFrom(fx.SchemeNames).Draw(rt, "scheme"),
			N:       n,
			T:       rapid.IntRange(n/2+1, n).Draw(rt, "t"),
			Backend: BackMem, KeepLogs: debugT, Period: 3 * time.Second, Catchup: time.Second, BeaconID: "c03", SyncOff: true,
		}
		if rapid.IntRange(0, 2).Draw(rt, "chainedBias") == 0 {
			cfg.Scheme = fx.SchemeNames[0]
		}
		net, err := New(cfg)
		if err != nil {
			rt.Fatalf("new: %v", err)
		}
		defer net.Close()
		cfg = net.Cfg
		// some members may be down from the start: they are the corrupted ones, the harness speaks for them
		down := map[int]bool{}
		maxDown := cfg.N - 1
		nd := rapid.IntRange(0, maxDown).Draw(rt, "down")
		if rapid.IntRange(0, 2).Draw(rt, "allUp") > 0 {
			nd = 0
		}
		for i := 0; i < nd; i++ {
			down[cfg.N-1-i] = true
		}
		net.SetAllLinks(LinkQueue)
		if err := net.StartAll(); err != nil {
			rt.Fatalf("start: %v", err)
		}
		for i := range down {
			net.Nodes[i].Stop()
		}
		up := cfg.N - len(down)
		var hist []string
		flags := map[string]bool{}
		fail := func(f *Finding) {
			rec.Violation(rt, f.Key, f.Detail+" || case: "+fmt.Sprintf("%s n=%d t=%d down=%d :: %s", cfg.Scheme, cfg.N, cfg.T, len(down), strings.Join(hist, " ")),
				map[string]any{"history": hist, "finding": f.Artefact})
		}
		epoch := func(*Node, uint64) *fx.Net { return net.Live }
		rounds := rapid.IntRange(2, 5).Draw(rt, "rounds")
		net.NextStep()
		net.Advance(nil, cfg.GenesisIn)
		salt := 0
		for r := 0; r < rounds; r++ {
			if r > 0 {
				net.NextStep()
				net.Advance(nil, cfg.Period)
			}
			net.Settle()
			hist = append(hist, fmt.Sprintf("tick%d", r+1))
			// per observer: choose how many of the queued honest partials (for its head+1) to deliver
			for x := 0; x < cfg.N; x++ {
				if down[x] {
					continue
				}
				head, _ := net.Nodes[x].Head()
				target := head + 1
				var prev []byte
				if b, err := net.Nodes[x].H.Store().Last(context.Background()); err == nil {
					prev = b.Signature
				}
				// candidates in the queue: partials to x for its target round from distinct senders
				net.mu.Lock()
				var cands []*queued
				for _, q := range net.queue {
					if q.ev.To == x && q.ev.Round == target {
						cands = append(cands, q)
					}
				}
				net.mu.Unlock()
				want := rapid.SampledFrom([]int{cfg.T - 2, cfg.T - 1, cfg.T - 1, cfg.T}).Draw(rt, fmt.Sprintf("deliver%d", x))
				if want < 0 {
					want = 0
				}
				// corrupted (down) members may add valid partials of their own
				extraValid := 0
				if len(down) > 0 {
					extraValid = rapid.IntRange(0, len(down)).Draw(rt, "corruptValid")
				}
				junk := rapid.IntRange(0, 4).Draw(rt, "junk")
				// interleave: junk first / between / after is decided by a drawn order string
				type item struct {
					kind string
					q    *queued
					adv  int
					sg   int
				}
				var items []item
				for i := 0; i < want && i < len(cands); i++ {
					items = append(items, item{kind: "honest", q: cands[i]})
				}
				dl := keysOf(down)
				for i := 0; i < extraValid; i++ {
					items = append(items, item{kind: "corrupt-valid", sg: dl[i]})
				}
				for i := 0; i < junk; i++ {
					k := rapid.SampledFrom([]int{AdvWrongShare, AdvOtherRound, AdvOtherPrev, AdvJunkPrev, AdvNonMember, AdvReceiverIndex, AdvTruncated, AdvBitFlip, AdvEmpty, AdvValid}).Draw(rt, "junkKind")
					sg := rapid.IntRange(0, cfg.N-1).Draw(rt, "junkSigner")
					if k == AdvValid {
						// duplicate of an already counted honest member's partial (replay)
						items = append(items, item{kind: "replay", sg: sg, adv: AdvValid})
					} else {
						items = append(items, item{kind: "junk", sg: sg, adv: k})
					}
				}
				// drawn permutation
				for i := len(items) - 1; i > 0; i-- {
					j := rapid.IntRange(0, i).Draw(rt, "perm")
					items[i], items[j] = items[j], items[i]
				}
				// x's own partial counts only if x has emitted one for the target round (a laggard that stored target-1 after this tick has not)
				validDelivered := 0
				net.mu.Lock()
				for _, ev := range net.Tap {
					if ev.From == x && !ev.Injected && ev.Round == target {
						validDelivered = 1
						break
					}
				}
				net.mu.Unlock()
				var desc []string
				if validDelivered == 0 {
					desc = append(desc, "own-not-emitted")
				}
				sendersSeen := map[int]bool{x: true}
				for _, it := range items {
					switch it.kind {
					case "honest":
						net.mu.Lock()
						idx := -1
						for i, q := range net.queue {
							if q == it.q {
								idx = i
							}
						}
						net.mu.Unlock()
						if idx >= 0 {
							net.DeliverQueued(idx)
							if !sendersSeen[it.q.ev.From] {
								sendersSeen[it.q.ev.From] = true
								validDelivered++
							}
							desc = append(desc, fmt.Sprintf("h%d", it.q.ev.From))
						}
					case "corrupt-valid":
						salt++
						pkt, _ := net.Forge(AdvValid, it.sg, x, target, prev, salt)
						if ev := net.Inject(x, net.Nodes[it.sg].Addr, pkt, "corrupt-valid"); ev.Err != "" {
							rt.Fatalf("harness: valid partial of corrupted member %d refused by node %d: %s", it.sg, x, ev.Err)
						}
						if !sendersSeen[it.sg] {
							sendersSeen[it.sg] = true
							validDelivered++
						}
						desc = append(desc, fmt.Sprintf("c%d", it.sg))
						flags["corrupt-valid"] = true
					case "replay":
						if it.sg == x {
							continue
						}
						salt++
						pkt, _ := net.Forge(AdvValid, it.sg, x, target, prev, salt)
						// only a replay if that member's partial was (or will be) counted anyway; otherwise it is a genuine contribution
						if !sendersSeen[it.sg] {
							continue
						}
						net.Inject(x, net.Nodes[it.sg].Addr, pkt, "replay")
						desc = append(desc, fmt.Sprintf("r%d", it.sg))
						flags["replay"] = true
					default:
						salt++
						pkt, label := net.Forge(it.adv, it.sg, x, target, prev, salt)
						net.Inject(x, net.Nodes[it.sg].Addr, pkt, label)
						desc = append(desc, "j:"+label)
						flags["junk"] = true
					}
				}
				// the observer stays short of the threshold for its target round, but a threshold of valid partials for the round
				// AFTER it arrives (from members that are ahead): they must wait in the cache, not become the target round
				if validDelivered < cfg.T && rapid.IntRange(0, 3).Draw(rt, "laterRound") == 0 {
					sigT := net.Live.Sign(target, prev)
					sent := 0
					for sg := 0; sg < cfg.N && sent < cfg.T; sg++ {
						if sg == x {
							continue
						}
						salt++
						pkt, _ := net.Forge(AdvValid, sg, x, target+1, sigT, salt)
						net.Inject(x, net.Nodes[sg].Addr, pkt, "later-round")
						sent++
					}
					desc = append(desc, fmt.Sprintf("later-round(%d)x%d", target+1, sent))
					flags["later-round-threshold"] = true
					net.Settle()
				}
				hist = append(hist, fmt.Sprintf("x%d@%d[%s]=%d/%d", x, target, strings.Join(desc, ","), validDelivered, cfg.T))
				if validDelivered == cfg.T-1 {
					flags["k=t-1"] = true
				}
				if validDelivered == cfg.T {
					flags["k=t"] = true
				}
				if validDelivered > cfg.T {
					flags["k>t"] = true
				}
				// positive control: with >= t distinct valid partials delivered the beacon must appear
				if validDelivered >= cfg.T {
					if !net.WaitHeads([]int{x}, target, 3*time.Second) {
						h2, _ := net.Nodes[x].Head()
						if debugT {
							for _, l := range net.Nodes[x].Log.Root().Lines() {
								fmt.Println(trunc(l, 300))
							}
						}
						rt.Fatalf("positive control failed (harness or liveness problem): node %d got %d >= t=%d valid partials for round %d but head is %d; %s", x, validDelivered, cfg.T, target, h2, strings.Join(hist, " "))
					}
				}
			}
			net.Settle()
			if f := net.CheckThreshold(epoch); f != nil {
				fail(f)
			}
			// with fewer than t members able to contribute (up honest + corrupted speaking valid) nothing may ever be produced: checked by the same oracle,
			// and additionally directly when fewer than t nodes are up and no corrupt-valid partial was sent
			if up < cfg.T && !flags["corrupt-valid"] {
				for _, ndx := range net.Nodes {
					if ndx.Up {
						if h, _ := ndx.Head(); h > 0 {
							fail(&Finding{"C03/beacon-with-too-few-members", fmt.Sprintf("node %d has head %d although only %d < t=%d members ever contributed", ndx.Pos, h, up, cfg.T), nil})
						}
					}
				}
				flags["fewer-than-t-up"] = true
			}
			// optionally flush what is left so that laggards can catch up
			if rapid.Bool().Draw(rt, "flush") {
				for net.QueueLen() > 0 {
					net.DeliverQueued(0)
				}
				net.Settle()
				hist = append(hist, "flush")
				if f := net.CheckThreshold(epoch); f != nil {
					fail(f)
				}
			}
		}
		if f := net.FatalLogged(); f != nil {
			rt.Fatalf("fatal log: %s", f.Detail)
		}
		labels := []string{"scheme/" + cfg.Scheme, fmt.Sprintf("n=%d,t=%d", cfg.N, cfg.T)}
		for f := range flags {
			labels = append(labels, f)
		}
		nontrivial := (flags["k=t-1"] && flags["junk"]) || flags["fewer-than-t-up"]
		rec.Case(fmt.Sprintf("%s n=%d t=%d down=%d :: %s", cfg.Scheme, cfg.N, cfg.T, len(down), strings.Join(hist, " ")), nontrivial, labels...)
	})
}

func keysOf(m map[int]bool) []int {
	var out []int
	for k := range m {
		out = append(out, k)
	}
	for i := 0; i < len(out); i++ {
		for j := i + 1; j < len(out); j++ {
			if out[j] < out[i] {
				out[i], out[j] = out[j], out[i]
			}
		}
	}
	return out
}
