package beaconnet

import (
	"context"
	"fmt"
	"os"
	"testing"
	"time"

	"github.com/drand/drand/v2/verifharness/fx"
	"github.com/drand/drand/v2/verifharness/stats"
	"pgregory.net/rapid"
)

// TestC14PartialFlood: sequences of protobuf-valid PartialBeacon requests long enough to cross the per-signer bookkeeping
// bounds of the partial cache. One member (its share is known to the harness) sends M correctly signed partials over distinct
// previous signatures / rounds to a victim, before, between or after the honest partials of the round being aggregated.
// Oracle: every request returns, the process survives (a panic in the aggregation goroutine kills the test binary: the driver
// reports that as a violation of this property), no Fatal log event, and afterwards the victim still takes part: the flooded
// round and the following ones are stored by every node (the other n-1 >= t members suffice).
func TestC14PartialFlood(t *testing.T) {
	rec := stats.Open(t, "C14")
	rapid.Check(t, func(rt *rapid.T) {
		n := rapid.IntRange(3, 5).Draw(rt, "n")
		cfg := Config{
			Seed:    rapid.Uint64Range(1, 1<<32).Draw(rt, "keyseed"),
			Scheme:  rapid.SampledFrom(fx.SchemeNames).Draw(rt, "scheme"),
			N:       n,
			T:       rapid.IntRange(n/2+1, n-1).Draw(rt, "t"),
			Backend: BackMem, KeepLogs: debugT, Period: 3 * time.Second, Catchup: time.Second, BeaconID: "c14",
		}
		net, err := New(cfg)
		if err != nil {
			rt.Fatalf("new: %v", err)
		}
		defer net.Close()
		cfg = net.Cfg
		victim := rapid.IntRange(0, n-1).Draw(rt, "victim")
		signer := (victim + 1 + rapid.IntRange(0, n-2).Draw(rt, "signer")) % n
		m := rapid.SampledFrom([]int{95, 101, 150, 201, 202, 203, 250, 320, 450}).Draw(rt, "M")
		when := rapid.SampledFrom([]string{"before-honest", "between", "after-stored"}).Draw(rt, "when")
		spread := rapid.SampledFrom([]string{"one-round", "window"}).Draw(rt, "spread")
		desc := fmt.Sprintf("flood %s n=%d t=%d victim=%d signer=%d M=%d %s %s seed=%d", cfg.Scheme, cfg.N, cfg.T, victim, signer, m, when, spread, cfg.Seed)
		wd := time.AfterFunc(4*time.Minute, func() {
			fmt.Fprintf(os.Stderr, "WATCHDOG: case %s still running after 4 minutes\n", desc)
			os.Exit(3)
		})
		defer wd.Stop()
		if err := net.StartAll(); err != nil {
			rt.Fatalf("start: %v", err)
		}
		all := make([]int, n)
		for i := range all {
			all[i] = i
		}
		fail := func(key, detail string) {
			rec.Violation(rt, key, detail+" || case: "+desc, map[string]any{"case": desc})
		}
		// two ordinary rounds
		net.NextStep()
		net.Advance(nil, cfg.GenesisIn)
		// two ordinary rounds before anything hostile happens; on a starved machine they can take long: such a case says nothing
		if !net.WaitHeads(all, 1, 40*time.Second) {
			rec.Inconclusive(desc)
			rec.Case(desc, false, "warm-up-too-slow")
			return
		}
		net.NextStep()
		net.Advance(nil, cfg.Period)
		if !net.WaitHeads(all, 2, 40*time.Second) {
			rec.Inconclusive(desc)
			rec.Case(desc, false, "warm-up-too-slow")
			return
		}
		// round 3 becomes due with every partial towards the victim held back
		for i := 0; i < n; i++ {
			if i != victim {
				net.SetLink(i, victim, LinkQueue)
			}
		}
		net.NextStep()
		net.Advance(nil, cfg.Period)
		net.Settle()
		target := uint64(3)
		flood := func() {
			fromAddr := net.Nodes[signer].Addr
			for k := 0; k < m; k++ {
				r := target
				if spread == "window" {
					r = target + uint64(k%2) // the round being aggregated and the next one (accepted one round early)
				}
				pkt, _ := net.Forge(AdvJunkPrev, signer, victim, r, nil, 1000+k)
				done := make(chan struct{})
				go func() {
					net.Inject(victim, fromAddr, pkt, "flood")
					close(done)
				}()
				select {
				case <-done:
				case <-time.After(10 * time.Second):
					fail("C14/partial-request-does-not-return", fmt.Sprintf("PartialBeacon request %d of the flood did not return within 10 s", k))
					return
				}
			}
		}
		deliverHeld := func(max int) int {
			d := 0
			for net.QueueLen() > 0 && d < max {
				net.DeliverQueued(0)
				d++
			}
			return d
		}
		switch when {
		case "before-honest":
			flood()
			deliverHeld(1 << 30)
		case "between":
			deliverHeld(cfg.T - 2) // with its own partial the victim is one short of the threshold
			flood()
			deliverHeld(1 << 30)
		default:
			deliverHeld(1 << 30)
			net.WaitHeads([]int{victim}, target, 8*time.Second)
			target++ // the flood is for the next round, which is not due yet
			flood()
		}
		for i := 0; i < n; i++ {
			net.SetLink(i, victim, LinkInline)
		}
		deliverHeld(1 << 30)
		net.Settle()
		if f := net.FatalLogged(); f != nil {
			fail("C14/"+f.Key, f.Detail)
		}
		// the node still serves: its chain follows the clock for three more rounds, and it answers a read
		goal := uint64(3)
		for k := 0; k < 3; k++ {
			if !net.WaitHeads(all, goal, 10*time.Second) {
				heads := []uint64{}
				for _, nd := range net.Nodes {
					h, _ := nd.Head()
					heads = append(heads, h)
				}
				fail("C14/node-stopped-producing-after-flood", fmt.Sprintf("round %d was not stored by every node within 10 s after the flood (heads %v)", goal, heads))
				break
			}
			goal++
			net.NextStep()
			net.Advance(nil, cfg.Period)
		}
		if _, err := net.Nodes[victim].H.Store().Last(context.Background()); err != nil {
			fail("C14/store-read-fails-after-flood", err.Error())
		}
		if f := net.CheckStored(); f != nil {
			fail("C14/"+f.Key, f.Detail)
		}
		rec.Case(desc, m > 100, "flood", "when/"+when, "spread/"+spread, fmt.Sprintf("M>200=%v", m > 200), "scheme/"+cfg.Scheme)
	})
}
