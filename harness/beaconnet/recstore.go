package beaconnet

import (
	"context"
	"io"
	"sync"

	"github.com/drand/drand/v2/common"
	"github.com/drand/drand/v2/internal/chain"
)

// RecStore wraps the base chain.Store handed to beacon.NewHandler and records every Put.
// It survives restarts of the node (the base store is re-attached), so the history spans incarnations.
type RecStore struct {
	node *Node
	mu   sync.Mutex
	base chain.Store
	Hist []*PutEvent
	// Gate, when set, is called before each Put reaches the base store (used to force interleavings).
	Gate func(b *common.Beacon)
}

func (r *RecStore) attach(base chain.Store) {
	r.mu.Lock()
	r.base = base
	r.mu.Unlock()
}

func (r *RecStore) b() chain.Store {
	r.mu.Lock()
	defer r.mu.Unlock()
	return r.base
}

func (r *RecStore) Put(ctx context.Context, b *common.Beacon) error {
	if g := r.Gate; g != nil {
		g(b)
	}
	n := r.node.net
	err := r.b().Put(ctx, b)
	ev := &PutEvent{Seq: n.seq.Add(1), Step: n.Step(), Round: b.Round, Sig: append([]byte(nil), b.Signature...), Prev: append([]byte(nil), b.PreviousSig...),
		Clock: r.node.Clock.Now().Unix(), Incarnation: r.node.Inc}
	if err != nil {
		ev.Err = err.Error()
	}
	r.mu.Lock()
	r.Hist = append(r.Hist, ev)
	r.mu.Unlock()
	n.actions.Add(1)
	return err
}

// History returns a copy of the Put history (without the stale writes of stopped incarnations).
func (r *RecStore) History() []*PutEvent {
	r.mu.Lock()
	defer r.mu.Unlock()
	out := make([]*PutEvent, 0, len(r.Hist))
	for _, ev := range r.Hist {
		if !ev.Stale {
			out = append(out, ev)
		}
	}
	return out
}

// StaleWrites counts Puts attempted by handlers of earlier incarnations after the node was restarted.
func (r *RecStore) StaleWrites() int {
	r.mu.Lock()
	defer r.mu.Unlock()
	n := 0
	for _, ev := range r.Hist {
		if ev.Stale {
			n++
		}
	}
	return n
}

func (r *RecStore) Len(ctx context.Context) (int, error)             { return r.b().Len(ctx) }
func (r *RecStore) Last(ctx context.Context) (*common.Beacon, error) { return r.b().Last(ctx) }
func (r *RecStore) Get(ctx context.Context, round uint64) (*common.Beacon, error) {
	return r.b().Get(ctx, round)
}
func (r *RecStore) Cursor(ctx context.Context, f func(context.Context, chain.Cursor) error) error {
	return r.b().Cursor(ctx, f)
}
func (r *RecStore) Close() error                                  { return r.b().Close() }
func (r *RecStore) Del(ctx context.Context, round uint64) error   { return r.b().Del(ctx, round) }
func (r *RecStore) SaveTo(ctx context.Context, w io.Writer) error { return r.b().SaveTo(ctx, w) }

// incStore is what one incarnation of the node's handler is given: it writes to the base store of ITS incarnation. A handler
// that was stopped can still have a goroutine finishing a Put; in reality that process is gone, so such a write must neither
// reach the store of the next incarnation nor count in its history (it is recorded as stale).
type incStore struct {
	*RecStore
	own chain.Store
	inc int
}

func (v *incStore) Put(ctx context.Context, b *common.Beacon) error {
	if v.node.Inc == v.inc {
		return v.RecStore.Put(ctx, b)
	}
	err := v.own.Put(ctx, b)
	ev := &PutEvent{Seq: v.node.net.seq.Add(1), Step: v.node.net.Step(), Round: b.Round, Incarnation: v.inc, Stale: true}
	if err != nil {
		ev.Err = err.Error()
	}
	v.mu.Lock()
	v.Hist = append(v.Hist, ev)
	v.mu.Unlock()
	return err
}
func (v *incStore) Len(ctx context.Context) (int, error)             { return v.own.Len(ctx) }
func (v *incStore) Last(ctx context.Context) (*common.Beacon, error) { return v.own.Last(ctx) }
func (v *incStore) Get(ctx context.Context, round uint64) (*common.Beacon, error) {
	return v.own.Get(ctx, round)
}
func (v *incStore) Cursor(ctx context.Context, f func(context.Context, chain.Cursor) error) error {
	return v.own.Cursor(ctx, f)
}
func (v *incStore) Close() error                                  { return v.own.Close() }
func (v *incStore) Del(ctx context.Context, round uint64) error   { return v.own.Del(ctx, round) }
func (v *incStore) SaveTo(ctx context.Context, w io.Writer) error { return v.own.SaveTo(ctx, w) }

// Base gives direct access to the base store (for corruption in C10 and scans in C02).
func (r *RecStore) Base() chain.Store { return r.b() }
