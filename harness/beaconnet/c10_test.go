package beaconnet

import (
	"bytes"
	"context"
	"fmt"
	"math/rand"
	"sort"
	"strings"
	"testing"
	"time"

	"github.com/drand/drand/v2/common"
	dnet "github.com/drand/drand/v2/internal/net"
	"github.com/drand/drand/v2/verifharness/fx"
	"github.com/drand/drand/v2/verifharness/stats"
	"pgregory.net/rapid"
)

func genC10Config(rt *rapid.T) Config {
	n := rapid.IntRange(2, 6).Draw(rt, "n")
	cfg := Config{
		Seed:     rapid.Uint64Range(1, 1<<32).Draw(rt, "keyseed"),
		Scheme:   rapid.SampledFrom(fx.SchemeNames).Draw(rt, "scheme"),
		N:        n,
		T:        rapid.IntRange(n/2+1, n).Draw(rt, "t"),
		Backend:  rapid.IntRange(0, NBackends-1).Draw(rt, "backend"),
		Period:   time.Duration(rapid.IntRange(2, 5).Draw(rt, "period")) * time.Second,
		BeaconID: "c10",
	}
	if rapid.IntRange(0, 1).Draw(rt, "chainedBias") == 0 {
		cfg.Scheme = fx.SchemeNames[0]
	}
	cfg.Catchup = time.Second
	return cfg
}

// populate stores the true chain 1..h through the node's full store stack.
func populate(net *Net, nd *Node, h uint64) error {
	for r := uint64(1); r <= h; r++ {
		b := &common.Beacon{Round: r, Signature: net.TrueSig(r)}
		if fx.Chained(net.Cfg.Scheme) {
			b.PreviousSig = net.TrueSig(r - 1)
		}
		if err := nd.H.Store().Put(context.Background(), b); err != nil {
			return fmt.Errorf("populate round %d: %w", r, err)
		}
	}
	return nil
}

type peerScript struct {
	Pos  int
	Spec LieSpec
}

func genPeers(rt *rapid.T, cfg Config, have uint64, behind uint64, forceHonest bool) []peerScript {
	var out []peerScript
	honest := false
	for i := 1; i < cfg.N; i++ {
		kind := rapid.IntRange(0, NLieKinds-1).Draw(rt, fmt.Sprintf("peer%d", i))
		spec := LieSpec{Kind: kind, At: rapid.IntRange(0, 4).Draw(rt, "at"), Have: have}
		if kind == LieHonest {
			if rapid.IntRange(0, 3).Draw(rt, "behind") == 0 {
				spec.Have = behind // honest but not ahead
			} else {
				honest = true
			}
		}
		out = append(out, peerScript{Pos: i, Spec: spec})
	}
	if forceHonest && !honest {
		k := rapid.IntRange(0, len(out)-1).Draw(rt, "honestAt")
		out[k].Spec = LieSpec{Kind: LieHonest, Have: have}
	}
	return out
}

func peersDesc(ps []peerScript) string {
	var s []string
	for _, p := range ps {
		s = append(s, fmt.Sprintf("p%d:%s@%d<=%d", p.Pos, LieNames[p.Spec.Kind], p.Spec.At, p.Spec.Have))
	}
	return strings.Join(s, ",")
}

func hasHonestAhead(ps []peerScript, goal uint64) bool {
	for _, p := range ps {
		if p.Spec.Kind == LieHonest && p.Spec.Have >= goal {
			return true
		}
	}
	return false
}

// TestC10Sync (participant mode): one real node catches up from a list of scripted peers.
func TestC10Sync(t *testing.T) {
	rec := stats.Open(t, "C10")
	rapid.Check(t, func(rt *rapid.T) {
		cfg := genC10Config(rt)
		net, err := New(cfg)
		if err != nil {
			rt.Fatalf("new: %v", err)
		}
		defer net.Close()
		cfg = net.Cfg
		rand.Seed(int64(cfg.Seed)) //nolint // peer order in SyncManager.Sync comes from the global source
		nut := net.Nodes[0]
		if err := nut.Boot(true); err != nil {
			rt.Fatalf("boot: %v", err)
		}
		h := uint64(rapid.SampledFrom([]int{0, 1, 3, 8}).Draw(rt, "height"))
		ahead := uint64(rapid.SampledFrom([]int{1, 2, 5, 12}).Draw(rt, "ahead"))
		goal := h + ahead
		if err := populate(net, nut, h); err != nil {
			rt.Fatalf("%v", err)
		}
		peers := genPeers(rt, cfg, goal, h, rapid.IntRange(0, 3).Draw(rt, "forceHonest") > 0)
		for _, p := range peers {
			sp := p.Spec
			net.SetLiar(net.Nodes[p.Pos].Addr, &sp)
		}
		desc := fmt.Sprintf("%s n=%d %s height=%d goal=%d peers=[%s]", cfg.Scheme, cfg.N, BackendNames[cfg.Backend], h, goal, peersDesc(peers))
		fail := func(f *Finding) {
			rec.Violation(rt, strings.Replace(strings.Replace(f.Key, "C01/", "C10/", 1), "C02/", "C10/", 1), f.Detail+" || case: "+desc, map[string]any{"case": desc, "finding": f.Artefact})
		}
		// the node's clock is in round `goal`: the network has produced up to there
		nut.Clock.Advance(cfg.GenesisIn + time.Duration(goal-1)*cfg.Period)
		net.NextStep()
		nut.H.Catchup(context.Background())
		net.pause()
		honest := hasHonestAhead(peers, goal)
		// retry loop: every tick with a gap sends a new sync request; stuck syncs are cancelled after 2 periods without progress
		reached := false
		attempts := 0
		for ; attempts < 80; attempts++ {
			net.SettleFor(15*time.Millisecond, 2*time.Second)
			if hd, _ := nut.Head(); hd >= goal {
				reached = true
				break
			}
			if !honest && attempts >= 6 {
				break
			}
			net.NextStep()
			nut.Clock.Advance(cfg.Period)
		}
		if f := net.CheckStored(); f != nil {
			fail(f)
		}
		if f := net.CheckHistory(); f != nil {
			fail(f)
		}
		if f := net.ScanNode(nut); f != nil {
			fail(f)
		}
		hd, _ := nut.Head()
		if hd > goal {
			fail(&Finding{"C10/stored-beyond-honest-chain", fmt.Sprintf("node stored round %d although no honest peer has more than %d", hd, goal), nil})
		}
		if honest && !reached {
			// re-run the wait once with a longer quiescence window before calling it
			for i := 0; i < 40 && !reached; i++ {
				net.NextStep()
				nut.Clock.Advance(cfg.Period)
				net.SettleFor(150*time.Millisecond, 3*time.Second)
				if hd, _ := nut.Head(); hd >= goal {
					reached = true
				}
			}
			if !reached {
				hd, _ := nut.Head()
				rec.Violation(rt, "C10/does-not-converge", fmt.Sprintf("an honest peer holds rounds up to %d but the node stayed at %d after %d periods || case: %s", goal, hd, attempts+40, desc), map[string]any{"case": desc})
			}
			rec.Inconclusive(desc)
		}
		if f := net.FatalLogged(); f != nil {
			rt.Fatalf("fatal log: %s", f.Detail)
		}
		hostile := 0
		for _, p := range peers {
			if p.Spec.Kind != LieHonest {
				hostile++
			}
		}
		labels := []string{"sync", "scheme/" + cfg.Scheme, "backend/" + BackendNames[cfg.Backend], fmt.Sprintf("reached=%v", reached), fmt.Sprintf("honest=%v", honest)}
		for _, p := range peers {
			labels = append(labels, "peer/"+LieNames[p.Spec.Kind])
		}
		rec.Max("max_periods_to_converge", float64(attempts))
		rec.Case(desc, hostile > 0 && honest, labels...)
	})
}

// corruption kinds for the check / repair scenario
const (
	corDelete = iota
	corGarbage
	corOtherRound
	corWrongPrev
)

var corNames = []string{"deleted", "garbage-signature", "other-rounds-signature", "wrong-stored-prev"}

// TestC10CheckRepair: corrupt the base store of a node holding a verified chain, then ValidateChain / CorrectChain.
func TestC10CheckRepair(t *testing.T) {
	rec := stats.Open(t, "C10")
	rapid.Check(t, func(rt *rapid.T) {
		cfg := genC10Config(rt)
		net, err := New(cfg)
		if err != nil {
			rt.Fatalf("new: %v", err)
		}
		defer net.Close()
		cfg = net.Cfg
		rand.Seed(int64(cfg.Seed)) //nolint
		chained := fx.Chained(cfg.Scheme)
		nut := net.Nodes[0]
		if err := nut.Boot(true); err != nil {
			rt.Fatalf("boot: %v", err)
		}
		L := uint64(rapid.IntRange(6, 40).Draw(rt, "length"))
		if err := populate(net, nut, L); err != nil {
			rt.Fatalf("%v", err)
		}
		// the node's clock is in round L (the sync manager only serves after genesis)
		nut.Clock.Advance(cfg.GenesisIn + time.Duration(L-1)*cfg.Period)
		net.pause()
		base := nut.Rec.Base()
		ctx := context.Background()
		// corrupt
		nc := rapid.IntRange(1, 5).Draw(rt, "ncorrupt")
		type cor struct {
			r    uint64
			kind int
		}
		var cors []cor
		used := map[uint64]bool{}
		for i := 0; i < nc; i++ {
			r := uint64(rapid.IntRange(1, int(L)).Draw(rt, "round"))
			if used[r] {
				continue
			}
			used[r] = true
			maxKind := corOtherRound
			if chained && cfg.Backend != BackBoltTrimmed {
				maxKind = corWrongPrev
			}
			k := rapid.IntRange(0, maxKind).Draw(rt, "kind")
			if cfg.Backend == BackMem {
				// the ring keeps the old value on re-put (C18), so an overwritten value cannot be repaired in place and cannot arise
				// from disk corruption either: only missing rounds are in scope for the in-memory back-end
				k = corDelete
			}
			cors = append(cors, cor{r, k})
			good := &common.Beacon{Round: r, Signature: net.TrueSig(r)}
			if chained {
				good.PreviousSig = net.TrueSig(r - 1)
			}
			bad := *good
			switch k {
			case corDelete:
			case corGarbage:
				bad.Signature = fx.Bytes(cfg.Seed, fmt.Sprintf("garbage%d", r), len(good.Signature))
			case corOtherRound:
				bad.Signature = net.TrueSig(r + 7)
			case corWrongPrev:
				bad.PreviousSig = fx.Bytes(cfg.Seed, fmt.Sprintf("badprev%d", r), len(good.PreviousSig))
			}
			if err := base.Del(ctx, r); err != nil {
				rt.Fatalf("del: %v", err)
			}
			if k != corDelete {
				if err := base.Put(ctx, &bad); err != nil {
					rt.Fatalf("put: %v", err)
				}
			}
		}
		// model of what a check must report
		deleted := map[uint64]bool{}
		bad := map[uint64]bool{}
		for _, c := range cors {
			if c.kind == corDelete {
				deleted[c.r] = true
			}
			bad[c.r] = true
		}
		head := L
		for head > 0 && deleted[head] {
			head--
		}
		upTo := uint64(rapid.SampledFrom([]int{int(L), int(L) / 2, int(L) + 5, 1, 3}).Draw(rt, "upTo"))
		eff := upTo
		if head < eff {
			eff = head
		}
		expected := map[uint64]bool{}
		for r := uint64(1); r <= eff; r++ {
			if bad[r] {
				expected[r] = true
			}
			// previous signature is reconstructed from the stored signature of r-1 on trimmed + chained
			if chained && cfg.Backend == BackBoltTrimmed && r >= 2 && bad[r-1] {
				for _, c := range cors {
					if c.r == r-1 && c.kind != corWrongPrev {
						expected[r] = true
					}
				}
			}
		}
		var cdesc []string
		for _, c := range cors {
			cdesc = append(cdesc, fmt.Sprintf("%d:%s", c.r, corNames[c.kind]))
		}
		peers := genPeers(rt, cfg, L, L/2, rapid.IntRange(0, 2).Draw(rt, "forceHonest") > 0)
		for i := range peers {
			peers[i].Spec.At = 0 // a re-sync asks for one round: only the first streamed beacon matters
			switch peers[i].Spec.Kind {
			case LieRepeat, LieSwap:
				// with a one-round request these are indistinguishable from an honest answer
				peers[i].Spec.Kind = LieRefuse
			case LieSkip:
				// answers "from b" with b+1, b+2, ... (a peer with the same hole): valid beacons of rounds that were not asked for;
				// rewriting them is harmless to content, but the round asked for is not restored by this peer
			case LieWrongPrev:
				// a group-signed beacon over a junk previous signature needs a colluding threshold: outside the statement
				peers[i].Spec.Kind = LieBadSig
			}
		}
		desc := fmt.Sprintf("%s %s L=%d corrupt=[%s] upTo=%d peers=[%s]", cfg.Scheme, BackendNames[cfg.Backend], L, strings.Join(cdesc, ","), upTo, peersDesc(peers))
		beforeRepair := len(nut.Rec.History())
		got, err := nut.H.ValidateChain(ctx, upTo, nil)
		if err != nil && chained && cfg.Backend == BackBoltTrimmed && head >= 1 && deleted[head-1] {
			// known finding: with reconstructed previous signatures the head cannot be read when head-1 is missing, and the check gives up
			if !rec.Violation(rt, "C10/check-aborts-when-head-unreadable", fmt.Sprintf("ValidateChain returned %v instead of a report: round %d (head-1) is missing, so Store.Last() fails on the trimmed chained store || case: %s", err, head-1, desc), nil) {
				rec.Excluded()
				rec.Case(desc, true, "check-repair", "known-finding-shape")
				return
			}
		}
		if err != nil {
			rec.Violation(rt, "C10/check-error", fmt.Sprintf("ValidateChain failed: %v || case: %s", err, desc), nil)
			return
		}
		gotSet := map[uint64]bool{}
		for _, r := range got {
			gotSet[r] = true
		}
		if !sameSet(gotSet, expected) {
			rec.Violation(rt, "C10/check-reports-wrong-set", fmt.Sprintf("chain check reported %v, expected %v || case: %s", setList(gotSet), setList(expected), desc),
				map[string]any{"case": desc, "reported": setList(gotSet), "expected": setList(expected)})
		}
		// repair
		var plist []dnet.Peer
		for _, p := range peers {
			sp := p.Spec
			net.SetLiar(net.Nodes[p.Pos].Addr, &sp)
			plist = append(plist, dnet.CreatePeer(net.Nodes[p.Pos].Addr))
		}
		var maxRep uint64
		for r := range gotSet {
			if r > maxRep {
				maxRep = r
			}
		}
		honest := hasHonestAhead(peers, maxRep)
		snapshot := map[uint64][]byte{}
		for r := uint64(0); r <= L; r++ {
			if b, err := base.Get(ctx, r); err == nil {
				snapshot[r] = append([]byte(nil), b.Signature...)
			}
		}
		done := make(chan error, 1)
		rctx, cancel := context.WithTimeout(ctx, 20*time.Second)
		go func() { done <- nut.H.CorrectChain(rctx, got, plist, func(r, u uint64) {}) }()
		var rerr error
		returned := false
		// silent / stalling peers are abandoned after a wait on the node's clock: keep that clock moving while the repair runs
		for i := 0; i < 2000 && !returned; i++ {
			select {
			case rerr = <-done:
				returned = true
			case <-time.After(5 * time.Millisecond):
				nut.Clock.Advance(time.Second)
			}
		}
		cancel()
		if !returned {
			select {
			case rerr = <-done:
			case <-time.After(3 * time.Second):
			}
			rec.Violation(rt, "C10/repair-hangs-on-silent-peer", fmt.Sprintf("CorrectChain did not return although the node's clock advanced by 2000 s: a peer that accepts the stream and never sends blocks the repair || case: %s", desc), map[string]any{"case": desc})
			return
		}
		// safety of repair writes: every Put during repair verifies, and only reported rounds changed content
		for _, ev := range nut.Rec.History()[beforeRepair:] {
			if ev.Err != "" || ev.Round == 0 {
				continue
			}
			if err := net.VerifyBeacon(ev.Round, ev.Sig, ev.Prev); err != nil {
				rec.Violation(rt, "C10/repair-wrote-unverified-beacon", fmt.Sprintf("repair stored round %d sig %s which does not verify || case: %s", ev.Round, short(ev.Sig), desc), nil)
			}
		}
		for r := uint64(1); r <= L; r++ {
			b, err := base.Get(ctx, r)
			var now []byte
			if err == nil {
				now = b.Signature
			}
			// on the trimmed chained store the readability of r depends on r-1: becoming readable is not a content change
			dependsOnPrev := chained && cfg.Backend == BackBoltTrimmed && r >= 2 && gotSet[r-1] && snapshot[r] == nil
			// a peer may stream valid beacons of rounds that were not asked for: restoring the true value of an unreported
			// (e.g. beyond upTo) damaged round is harmless; changing a round to anything else is not
			if !bytes.Equal(now, snapshot[r]) && !gotSet[r] && !dependsOnPrev && !bytes.Equal(now, net.TrueSig(r)) {
				rec.Violation(rt, "C10/repair-touched-unreported-round", fmt.Sprintf("repair changed round %d which the check had not reported || case: %s", r, desc), nil)
			}
		}
		if honest && len(got) > 0 {
			if rerr != nil {
				rec.Violation(rt, "C10/repair-fails-with-honest-peer", fmt.Sprintf("CorrectChain returned %v although an honest peer holds the chain || case: %s", rerr, desc), nil)
			}
			// afterwards the reported rounds verify and equal the true chain
			for r := range gotSet {
				b, err := base.Get(ctx, r)
				if err != nil || !bytes.Equal(b.Signature, net.TrueSig(r)) {
					rec.Violation(rt, "C10/repair-did-not-restore", fmt.Sprintf("after repair round %d is %v / err %v || case: %s", r, b, err, desc), nil)
				}
			}
			again, _ := nut.H.ValidateChain(ctx, upTo, nil)
			if len(again) > 0 {
				rec.Violation(rt, "C10/repair-did-not-restore", fmt.Sprintf("after repair the check still reports %v || case: %s", again, desc), nil)
			}
		}
		if !honest && len(got) > 0 && rerr == nil {
			// with nobody able to serve the rounds an error must be returned
			rec.Violation(rt, "C10/repair-claims-success-without-source", fmt.Sprintf("CorrectChain returned nil although no peer could serve the rounds || case: %s", desc), nil)
		}
		labels := []string{"check-repair", "scheme/" + cfg.Scheme, "backend/" + BackendNames[cfg.Backend], fmt.Sprintf("honest=%v", honest)}
		for _, c := range cors {
			labels = append(labels, "corrupt/"+corNames[c.kind])
		}
		rec.Case(desc, len(cors) > 0, labels...)
	})
}

func sameSet(a, b map[uint64]bool) bool {
	if len(a) != len(b) {
		return false
	}
	for k := range a {
		if !b[k] {
			return false
		}
	}
	return true
}

func setList(m map[uint64]bool) []uint64 {
	var out []uint64
	for k := range m {
		out = append(out, k)
	}
	sort.Slice(out, func(i, j int) bool { return out[i] < out[j] })
	return out
}

// TestC10KnownFindingReplay replays, without the generator, the exact shape of each listed known finding so that every run
// states whether it still reproduces (the KNOWN-FINDING line) — and reports it as a violation again if it is not listed.
func TestC10KnownFindingReplay(t *testing.T) {
	rec := stats.Open(t, "C10")
	net, err := New(Config{Seed: 7, Scheme: fx.SchemeNames[0], N: 3, T: 2, Backend: BackBoltTrimmed, BeaconID: "c10", Period: 3 * time.Second})
	if err != nil {
		t.Fatal(err)
	}
	defer net.Close()
	nut := net.Nodes[0]
	if err := nut.Boot(true); err != nil {
		t.Fatal(err)
	}
	if err := populate(net, nut, 7); err != nil {
		t.Fatal(err)
	}
	nut.Clock.Advance(net.Cfg.GenesisIn + 6*net.Cfg.Period)
	net.pause()
	if err := nut.Rec.Base().Del(context.Background(), 6); err != nil {
		t.Fatal(err)
	}
	desc := "replay: pedersen-bls-chained bolt-trimmed L=7 corrupt=[6:deleted] upTo=7"
	got, err := nut.H.ValidateChain(context.Background(), 7, nil)
	if err != nil {
		rec.Violation(t, "C10/check-aborts-when-head-unreadable", fmt.Sprintf("ValidateChain returned %v instead of a report || case: %s", err, desc), nil)
	} else {
		t.Logf("listed finding C10/check-aborts-when-head-unreadable no longer reproduces: report %v", got)
		rec.Label("known-finding-no-longer-reproduces")
	}
	rec.Case(desc, true, "known-finding-replay")
	rec.Case(desc+" (second descriptor: replay cases are fixed)", true, "known-finding-replay")
}
