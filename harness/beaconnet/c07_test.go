package beaconnet

import (
	"bytes"
	"context"
	"fmt"
	"strings"
	"testing"
	"time"

	"github.com/drand/drand/v2/common/chain"
	"github.com/drand/drand/v2/verifharness/fx"
	"github.com/drand/drand/v2/verifharness/stats"
	"pgregory.net/rapid"
)

// TestC07Continuity: a resharing applied to a running network of real beacon handlers (the harness plays the part of
// internal/core: it hands the new share/group to the remainers at generated instants, starts joiners, keeps leavers running
// with their old shares). Chain identity, continuity across the transition round, and "only new shares count afterwards".
func TestC07Continuity(t *testing.T) {
	rec := stats.Open(t, "C07")
	rapid.Check(t, func(rt *rapid.T) {
		n0 := rapid.IntRange(3, 5).Draw(rt, "n0")
		t0 := rapid.IntRange(n0/2+1, n0).Draw(rt, "t0")
		cfg := Config{
			Seed:     rapid.Uint64Range(1, 1<<32).Draw(rt, "keyseed"),
			Scheme:   rapid.SampledFrom(fx.SchemeNames).Draw(rt, "scheme"),
			N:        n0,
			T:        t0,
			Backend:  rapid.IntRange(0, NBackends-1).Draw(rt, "backend"),
			Period:   time.Duration(rapid.IntRange(2, 4).Draw(rt, "period")) * time.Second,
			BeaconID: "c07",
		}
		cfg.Catchup = time.Second
		if rapid.IntRange(0, 2).Draw(rt, "chainedBias") == 0 {
			cfg.Scheme = fx.SchemeNames[0]
		}
		net, err := New(cfg)
		if err != nil {
			rt.Fatalf("new: %v", err)
		}
		defer net.Close()
		cfg = net.Cfg
		var hist []string
		note := func(f string, a ...any) { hist = append(hist, fmt.Sprintf(f, a...)) }
		desc := func() string {
			return fmt.Sprintf("%s n0=%d t0=%d %s period=%v :: %s", cfg.Scheme, n0, t0, BackendNames[cfg.Backend], cfg.Period, strings.Join(hist, " "))
		}
		fail := func(f *Finding) {
			rec.Violation(rt, strings.Replace(strings.Replace(strings.Replace(f.Key, "C01/", "C07/", 1), "C02/", "C07/", 1), "C03/", "C07/", 1), f.Detail+" || case: "+desc(), map[string]any{"history": hist, "finding": f.Artefact})
		}
		if err := net.StartAll(); err != nil {
			rt.Fatalf("start: %v", err)
		}
		net.NextStep()
		net.Advance(nil, cfg.GenesisIn)
		round := uint64(1)
		if !net.WaitHeads(nil, round, 4*time.Second) {
			// start-up race of the harness (lost first tick): give it further ticks
			for i := 0; i < 4 && !net.WaitHeads(nil, round, 50*time.Millisecond); i++ {
				net.Advance(nil, cfg.Period)
				round++
				net.WaitHeads(nil, round, 3*time.Second)
			}
		}
		tick := func() {
			net.NextStep()
			net.Advance(nil, cfg.Period)
			round++
		}
		for i := 0; i < rapid.IntRange(1, 3).Draw(rt, "pre"); i++ {
			tick()
			net.WaitHeads(nil, round, 3*time.Second)
		}
		info0 := chain.NewChainInfo(net.Fx.Group)
		hash0 := info0.Hash()

		// ---- the reshare ----
		maxLeave := n0 - 1
		leave := rapid.IntRange(0, maxLeave).Draw(rt, "leave")
		if rapid.Bool().Draw(rt, "noLeave") {
			leave = 0
		}
		add := rapid.IntRange(0, 2).Draw(rt, "add")
		n1 := n0 - leave + add
		if n1 < 2 {
			add += 2 - n1
			n1 = 2
		}
		t1 := rapid.IntRange(n1/2+1, n1).Draw(rt, "t1")
		ahead := uint64(rapid.IntRange(2, 5).Draw(rt, "transitionIn"))
		rT := round + ahead
		leaving := map[int]bool{}
		for len(leaving) < leave {
			leaving[rapid.IntRange(0, n0-1).Draw(rt, "leaver")] = true
		}
		var keep []int
		for i := 0; i < n0; i++ {
			if !leaving[i] {
				keep = append(keep, i)
			}
		}
		prev := net.Live
		next := net.PlanReshare(keep, add, t1, rT, "e2")
		note("reshare(leave=%d,add=%d,t1=%d,at=r%d)", leave, add, t1, rT)
		// identity: nothing a client pins may change
		info1 := chain.NewChainInfo(next.Group)
		if !bytes.Equal(info1.Hash(), hash0) || !info1.PublicKey.Equal(info0.PublicKey) || info1.GenesisTime != info0.GenesisTime || !bytes.Equal(info1.GenesisSeed, info0.GenesisSeed) || info1.Period != info0.Period || info1.Scheme != info0.Scheme || info1.ID != info0.ID {
			fail(&Finding{"C07/chain-identity-changed", fmt.Sprintf("chain info changed across the reshare: %x vs %x", info1.Hash(), hash0), nil})
		}
		// each remainer is handed the new share at a drawn instant before round rT-1 is stored (the real daemon does it about ten
		// rounds ahead: the DKG sets the transition time to the 10th round after its completion)
		switchAt := map[int]uint64{}
		for _, pos := range keep {
			lead := uint64(rapid.IntRange(2, int(ahead)).Draw(rt, "switchLead"))
			switchAt[pos] = rT - lead
		}
		joinAt := round + uint64(rapid.IntRange(0, int(ahead)-1).Draw(rt, "joinAt"))
		stopLeavers := rapid.Bool().Draw(rt, "stopLeavers")
		late := 0
		joined := false
		var joiners []*Node
		applySwitches := func() {
			for _, pos := range keep {
				if switchAt[pos] == round {
					h, _ := net.Nodes[pos].Head()
					if err := net.SwitchRemainer(net.Nodes[pos], next); err != nil {
						rt.Fatalf("switch: %v", err)
					}
					note("switch(n%d@r%d,head=%d)", pos, round, h)
					if h+1 >= rT {
						late++
					}
					switchAt[pos] = 0
				}
			}
			if !joined && round >= joinAt && add > 0 {
				joined = true
				for j := 0; j < add; j++ {
					nd, err := net.AddJoiner(next, len(keep)+j, prev.Group, net.Nodes[0])
					if err != nil {
						rt.Fatalf("joiner: %v", err)
					}
					joiners = append(joiners, nd)
					note("join(n%d@r%d)", nd.Pos, round)
				}
			}
		}
		// members of the new group that are up and were given the new share in time
		newPositions := func() []int {
			var out []int
			for _, pos := range keep {
				out = append(out, pos)
			}
			for _, j := range joiners {
				out = append(out, j.Pos)
			}
			return out
		}
		// members of the new group work with the new polynomial from the transition round on; a node that left keeps its old
		// share (old shares remain shares of the same secret: a threshold of leavers that keeps running can still sign, which is
		// inherent to resharing and not what this property is about)
		epochAt := func(nd *Node, r uint64) *fx.Net {
			if r >= rT && nd.Pos < n0 && !leaving[nd.Pos] || nd.Pos >= n0 {
				if r >= rT {
					return next
				}
			}
			return prev
		}
		// once a node's clock has reached the transition time the new group is the live one for it: whatever round it still
		// owes (the old group may not have produced rT-1 in time, or sync lags behind) is signed with the new shares. The
		// signature is the same group signature either way.
		tTransition := net.timeOfRound(rT).Int64()
		net.AltEpoch = func(nd *Node, put *PutEvent) *fx.Net {
			if put.Clock >= tTransition && epochPos(next, nd.Addr) >= 0 {
				return next
			}
			return nil
		}
		checkAll := func() {
			if f := net.CheckStored(); f != nil {
				fail(f)
			}
			if f := net.CheckHistory(); f != nil {
				fail(f)
			}
			if f := net.CheckThreshold(epochAt); f != nil {
				fail(f)
			}
			if f := net.FatalLogged(); f != nil {
				rt.Fatalf("fatal log: %s || %s", f.Detail, desc())
			}
		}
		applySwitches()
		for round < rT-1 {
			tick()
			net.WaitHeads(keep, round, 3*time.Second)
			applySwitches()
			checkAll()
		}
		// the switch with lead 0 happens now: round rT-1 is stored, the callback can only fire on rT
		net.Settle()
		for _, pos := range keep {
			if switchAt[pos] != 0 {
				switchAt[pos] = round
			}
		}
		applySwitches()
		// leavers stop at the transition; if the old group still owes round rT-1 at that point the chain would halt for lack of the
		// old group (a risk the real network has too, and not what is asserted here), so they are only stopped once it is stored
		if stopLeavers && net.WaitHeads(keep, rT-1, 3*time.Second) {
			for pos := range leaving {
				net.Nodes[pos].Stop()
			}
			note("leavers-stopped")
		}
		// how many members of the new group hold the new share in time for rT
		inTime := len(keep) - late + len(joiners)
		// ---- across the transition ----
		for i := 0; i < 4; i++ {
			tick()
			if i == 0 {
				net.Live = next
			}
			net.WaitHeads(newPositions(), round, 3*time.Second)
			net.Settle()
			checkAll()
		}
		note("after-transition(inTime=%d/%d,t1=%d)", inTime, n1, t1)
		// continuity: with a threshold of the new group switched in time no round halts: everybody in the new group is at the clock
		if inTime >= t1 {
			ok := net.WaitHeads(newPositions(), round, 3*time.Second)
			for k := 0; k < 24 && !ok; k++ {
				// catch-up runs on the fake clock (one round per catch-up period of 1 s, the period is 2-4 s): a chain that is alive
				// closes any gap within a few of these steps, a halted one never does. On a busy machine the real-time waits are
				// what limits progress, hence the generous number of steps (only taken while the heads are behind).
				net.NextStep()
				net.Advance(nil, time.Second)
				net.SettleFor(30*time.Millisecond, 3*time.Second)
				r := net.Nodes[keep[0]].ClockRound()
				wait := 200 * time.Millisecond
				if k >= 6 {
					wait = time.Second
				}
				ok = net.WaitHeads(newPositions(), r, wait)
				round = r
			}
			if !ok {
				var st []string
				for _, pos := range newPositions() {
					h, _ := net.Nodes[pos].Head()
					st = append(st, fmt.Sprintf("n%d:%d", pos, h))
				}
				fail(&Finding{"C07/chain-halted-across-transition", fmt.Sprintf("%d of %d new-group members held the new share in time (threshold %d) but the chain did not follow the clock (round %d, transition round %d): heads %s", inTime, n1, t1, round, rT, strings.Join(st, " ")), nil})
			}
		}
		for _, nd := range net.Nodes {
			if f := net.ScanNode(nd); f != nil {
				fail(f)
			}
		}
		// ---- from the transition on only shares of the new group count ----
		// (a) a valid partial made with a share of the PREVIOUS polynomial is refused by switched nodes
		head, _ := net.Nodes[keep[0]].Head()
		var prevSig []byte
		if b, err := net.Nodes[keep[0]].H.Store().Last(context.Background()); err == nil {
			prevSig = b.Signature
		}
		for _, pos := range keep {
			if !net.Nodes[pos].Up {
				continue
			}
			signer := keep[(indexOf(keep, pos)+1)%len(keep)]
			if signer == pos {
				continue
			}
			old := prev.Partial(epochPos(prev, net.Nodes[signer].Addr), head+1, prevSig)
			if !fx.Chained(cfg.Scheme) {
				old = prev.Partial(epochPos(prev, net.Nodes[signer].Addr), head+1, nil)
			}
			ev := net.Inject(pos, net.Nodes[signer].Addr, net.packet(head+1, prevSig, old), "old-epoch-share")
			if ev.Err == "" {
				// accepted into the pipeline: acceptable only if the indices coincide AND the share value is the same, which a fresh polynomial excludes
				fail(&Finding{"C07/old-share-partial-accepted", fmt.Sprintf("node %d accepted a partial for round %d made with member %d's share of the previous epoch", pos, head+1, signer), nil})
			}
		}
		note("old-share-partials-refused")
		// (b) the new threshold is what counts: queue everything, give one observer exactly t1-1 valid new-epoch partials
		if t1 >= 2 {
			net.SetAllLinks(LinkQueue)
			tick()
			net.Settle()
			obs := keep[0]
			target := head + 1
			if h2, _ := net.Nodes[obs].Head(); h2+1 != target {
				target = h2 + 1
			}
			delivered := 0
			ownEmitted := func() bool {
				net.mu.Lock()
				defer net.mu.Unlock()
				for _, ev := range net.Tap {
					if ev.From == obs && !ev.Injected && ev.Round == target {
						return true
					}
				}
				return false
			}
			// the observer's own partial counts: wait for it (under load its ticker may run late), so that the number handed
			// over below really is one short of the threshold
			for i := 0; i < 400 && !ownEmitted(); i++ {
				time.Sleep(5 * time.Millisecond)
			}
			ownCounted := ownEmitted()
			if ownCounted {
				delivered = 1
			}
			net.mu.Lock()
			var cands []*queued
			seenFrom := map[int]bool{}
			for _, q := range net.queue {
				if q.ev.To == obs && q.ev.Round == target && !seenFrom[q.ev.From] && !leaving[q.ev.From] {
					cands = append(cands, q)
					seenFrom[q.ev.From] = true
				}
			}
			net.mu.Unlock()
			want := t1 - 1 - delivered
			for i := 0; i < want && i < len(cands); i++ {
				net.mu.Lock()
				idx := -1
				for k, q := range net.queue {
					if q == cands[i] {
						idx = k
					}
				}
				net.mu.Unlock()
				if idx >= 0 {
					net.DeliverQueued(idx)
					delivered++
				}
			}
			// leavers' (old share) partials are delivered on top: they must not count
			for {
				net.mu.Lock()
				idx := -1
				for k, q := range net.queue {
					if q.ev.To == obs && leaving[q.ev.From] {
						idx = k
					}
				}
				net.mu.Unlock()
				if idx < 0 {
					break
				}
				net.DeliverQueued(idx)
			}
			net.SettleFor(40*time.Millisecond, 2*time.Second)
			note("observer n%d got %d/%d new-epoch partials for r%d", obs, delivered, t1, target)
			if f := net.CheckThreshold(epochAt); f != nil {
				fail(f)
			}
			if !ownCounted && ownEmitted() {
				// own partial appeared only after the count: the observer legitimately had one more than assumed
				delivered++
				rec.Label("c07/own-partial-late")
			}
			if delivered < t1 {
				if h3, _ := net.Nodes[obs].Head(); h3 >= target && !net.SyncedBefore(net.Nodes[obs].Addr, target, 1<<62) {
					fail(&Finding{"C07/beacon-below-new-threshold", fmt.Sprintf("node %d stored round %d with %d valid partials of the new group (new threshold %d, old %d)", obs, target, delivered, t1, t0), nil})
				}
			}
			net.SetAllLinks(LinkInline)
			for net.QueueLen() > 0 {
				net.DeliverQueued(0)
			}
		}
		checkAll()
		labels := []string{"scheme/" + cfg.Scheme, "backend/" + BackendNames[cfg.Backend]}
		switch {
		case leave == 0 && add == 0:
			labels = append(labels, "shape/same-set")
		case leave > 0 && add > 0:
			labels = append(labels, "shape/replace")
		case add > 0:
			labels = append(labels, "shape/add")
		default:
			labels = append(labels, "shape/remove")
		}
		if t1 > t0 {
			labels = append(labels, "threshold-up")
		} else if t1 < t0 {
			labels = append(labels, "threshold-down")
		}
		if late > 0 {
			labels = append(labels, "late-switch")
		}
		rec.Case(desc(), leave > 0 || add > 0 || t1 != t0 || late > 0, labels...)
	})
}

func indexOf(xs []int, x int) int {
	for i, y := range xs {
		if y == x {
			return i
		}
	}
	return 0
}
