// Package beaconnet runs real beacon.Handler instances on an in-memory network with per-node fake clocks,
// recording stores and a tap on every protocol message (DESIGN.md §2.3 E-beaconnet).
package beaconnet

import (
	"context"
	"errors"
	"fmt"
	gonet "net"
	"os"
	"sync"
	"sync/atomic"
	"time"

	clock "github.com/jonboulle/clockwork"
	"google.golang.org/grpc"
	"google.golang.org/grpc/peer"

	"github.com/drand/drand/v2/common"
	"github.com/drand/drand/v2/common/key"
	"github.com/drand/drand/v2/internal/chain"
	"github.com/drand/drand/v2/internal/chain/beacon"
	"github.com/drand/drand/v2/internal/chain/boltdb"
	"github.com/drand/drand/v2/internal/chain/memdb"
	dnet "github.com/drand/drand/v2/internal/net"
	proto "github.com/drand/drand/v2/protobuf/drand"
	"github.com/drand/drand/v2/verifharness/fx"
	"github.com/drand/drand/v2/verifharness/hlog"
)

// Back-ends.
const (
	BackMem = iota
	BackBoltTrimmed
	BackBoltUntrimmed
	NBackends
)

var BackendNames = []string{"memdb", "bolt-trimmed", "bolt-untrimmed"}

// MemCap is the ring capacity used for memdb nodes.
const MemCap = 2000

// Link policies for partial beacons.
const (
	LinkInline = iota // deliver synchronously in the sender's goroutine
	LinkQueue         // hold until the harness delivers it
	LinkDrop          // lose it (sender sees an error)
	LinkDup           // deliver twice
)

// Config of a network.
type Config struct {
	Seed     uint64
	Scheme   string
	N, T     int
	Period   time.Duration
	Catchup  time.Duration
	Backend  int
	BeaconID string
	// GenesisIn is the distance between the start of the fake clocks and genesis.
	GenesisIn time.Duration
	KeepLogs  bool
	Scratch   string
	// MemCap is the ring capacity of memdb nodes (default 2000, minimum 10).
	MemCap int
	// SyncOff makes every SyncChain call fail ("unavailable"), so beacons can only come from aggregation.
	SyncOff bool
}

// PartialEvent is one PartialBeacon call leaving a node (or injected by the harness).
type PartialEvent struct {
	Seq         int64
	Step        int
	From        int // position of the sender, -1 for harness injections
	FromAddr    string
	To          int
	Round       uint64
	Prev        []byte
	Sig         []byte
	SenderClock int64 // sender's clock (unix) at call time
	Policy      int
	Injected    bool
	Label       string // adversary label for injected items
	Err         string // error returned by the receiver ("" = accepted)
	Done        bool
	// Started is set when delivery to the receiver began (Seq is then the delivery start).
	Started bool
}

// PutEvent is one Put on a node's base store.
type PutEvent struct {
	Seq   int64
	Step  int
	Round uint64
	Sig   []byte
	Prev  []byte
	Err   string
	Clock int64
	// Incarnation counts restarts of the node.
	Incarnation int
	// Stale marks a write attempted by the handler of an earlier incarnation after the node was restarted.
	Stale bool
}

// SyncEvent is one SyncChain call.
type SyncEvent struct {
	Seq      int64
	From, To int
	FromRnd  uint64
	Err      string
	Lie      string
}

// Net is the in-memory network.
type Net struct {
	// AltEpoch, when set, names a second epoch whose members' partials may justify a Put (see CheckThreshold).
	AltEpoch func(nd *Node, put *PutEvent) *fx.Net
	Cfg   Config
	Fx    *fx.Net
	Live  *fx.Net // epoch whose polynomial is live (changes at reshare)
	Nodes []*Node
	T0    time.Time

	mu      sync.Mutex
	seq     atomic.Int64
	step    atomic.Int64
	Tap     []*PartialEvent
	Syncs   []*SyncEvent
	links   map[[2]int]int
	queue   []*queued
	active  atomic.Int64 // in-flight deliveries / streams
	actions atomic.Int64 // counts tap + put + sync events, for settle
	// SyncScript optionally overrides SyncChain for a (requester, peer address): it returns the channel to hand back.
	SyncScript    func(from *Node, peerAddr string, req *proto.SyncRequest, ctx context.Context) (chan *proto.BeaconPacket, error, bool)
	extra         map[string]*Node // nodes by address (includes joiners)
	closed        bool
	vmu           sync.Mutex
	vcache        map[string]error
	pcache        map[string]int
	tmu           sync.Mutex
	truth         [][]byte
	liars         map[string]*LieSpec
	syncDelivered map[string]map[uint64]int64
	// Corrupt marks members whose outgoing traffic is scripted by the harness (excluded from honest-node oracles).
	Corrupt map[int]bool
}

type queued struct {
	ev  *PartialEvent
	pkt *proto.PartialBeaconPacket
}

// Node is one participant.
type Node struct {
	net   *Net
	Pos   int
	Addr  string
	Pair  *key.Pair
	Share *key.Share
	Group *key.Group
	Clock *clock.FakeClock
	Log   *hlog.Logger
	H     *beacon.Handler
	Rec   *RecStore
	Up    bool
	dir   string
	mem   *memdb.Store
	Inc   int
	Back  int
	// freshAt[incarnation] is true when that incarnation started from an empty store
	freshAt map[int]bool
}

// New builds the fixture and the nodes (not started).
func New(cfg Config) (*Net, error) {
	if cfg.Period == 0 {
		cfg.Period = 4 * time.Second
	}
	if cfg.Catchup == 0 {
		cfg.Catchup = cfg.Period / 2
	}
	if cfg.GenesisIn == 0 {
		cfg.GenesisIn = 2 * time.Second
	}
	if cfg.Scratch == "" {
		cfg.Scratch = os.Getenv("VERIF_SCRATCH")
		if cfg.Scratch == "" {
			cfg.Scratch = "/dev/shm"
		}
	}
	t0 := time.Unix(1700000000, 0)
	genesis := t0.Add(cfg.GenesisIn).Unix()
	f := fx.NewNet(cfg.Seed, fx.Opts{Scheme: cfg.Scheme, N: cfg.N, T: cfg.T, Period: cfg.Period, Catchup: cfg.Catchup, Genesis: genesis, BeaconID: cfg.BeaconID})
	n := &Net{Cfg: cfg, Fx: f, Live: f, T0: t0, links: map[[2]int]int{}, extra: map[string]*Node{}, Corrupt: map[int]bool{}}
	for i := 0; i < cfg.N; i++ {
		nd, err := n.newNode(i, f, i, cfg.Backend)
		if err != nil {
			n.Close()
			return nil, err
		}
		n.Nodes = append(n.Nodes, nd)
	}
	return n, nil
}

func (n *Net) newNode(pos int, epoch *fx.Net, epochPos int, back int) (*Node, error) {
	nd := &Node{net: n, Pos: pos, Pair: epoch.Pairs[epochPos], Share: epoch.Shares[epochPos], Group: epoch.Group,
		Addr: epoch.Pairs[epochPos].Public.Addr, Clock: clock.NewFakeClockAt(n.T0), Log: hlog.New(n.Cfg.KeepLogs), Back: back}
	if back != BackMem {
		d, err := os.MkdirTemp(n.Cfg.Scratch, "bn-node")
		if err != nil {
			return nil, err
		}
		nd.dir = d
	}
	n.extra[nd.Addr] = nd
	return nd, nil
}

// Step returns the current harness step index.
func (n *Net) Step() int { return int(n.step.Load()) }

// NextStep starts a new harness step.
func (n *Net) NextStep() int { return int(n.step.Add(1)) }

func (nd *Node) openBase(fresh bool) (chain.Store, error) {
	ctx := context.Background()
	if fx.Chained(nd.net.Cfg.Scheme) {
		ctx = chain.SetPreviousRequiredOnContext(ctx)
	}
	switch nd.Back {
	case BackMem:
		if nd.mem == nil || fresh {
			mc := nd.net.Cfg.MemCap
			if mc == 0 {
				mc = MemCap
			}
			nd.mem = memdb.NewStore(mc)
		}
		return nd.mem, nil
	case BackBoltUntrimmed:
		ctx = boltdb.IsATest(ctx)
	}
	if fresh {
		_ = os.RemoveAll(nd.dir)
		_ = os.MkdirAll(nd.dir, 0o755)
	}
	return boltdb.NewBoltStore(ctx, nd.Log, nd.dir)
}

// Boot creates the handler for the node with its current share/group. fresh drops the node's store first.
func (nd *Node) Boot(fresh bool) error {
	base, err := nd.openBase(fresh)
	if err != nil {
		return err
	}
	nd.Inc++
	if nd.freshAt == nil {
		nd.freshAt = map[int]bool{}
	}
	nd.freshAt[nd.Inc] = fresh
	if nd.Rec == nil {
		nd.Rec = &RecStore{node: nd}
	}
	nd.Rec.attach(base)
	conf := &beacon.Config{Public: nd.Group.Find(nd.Pair.Public), Share: nd.Share, Group: nd.Group, Clock: nd.Clock}
	if conf.Public == nil {
		return fmt.Errorf("node %s not in its group", nd.Addr)
	}
	h, err := beacon.NewHandler(context.Background(), &client{n: nd.net, from: nd}, &incStore{RecStore: nd.Rec, own: base, inc: nd.Inc}, conf, nd.Log, common.GetAppVersion())
	if err != nil {
		return err
	}
	nd.H = h
	nd.Up = true
	return nil
}

// StartAll boots every node and calls Start (clocks must be before genesis).
func (n *Net) StartAll() error {
	for _, nd := range n.Nodes {
		if err := nd.Boot(true); err != nil {
			return err
		}
		if err := nd.H.Start(context.Background()); err != nil {
			return err
		}
	}
	// before genesis two goroutines per node wait on the clock (the ticker and the sync manager): wait until they do, so that
	// the first advance does not race with their start-up (a tick that fires before the handler registered its tick channel is lost)
	for _, nd := range n.Nodes {
		ctx, cancel := context.WithTimeout(context.Background(), 2*time.Second)
		_ = nd.Clock.BlockUntilContext(ctx, 2)
		cancel()
	}
	n.pause()
	return nil
}

// pause gives freshly started goroutines the time to reach their first clock wait.
func (n *Net) pause() { time.Sleep(3 * time.Millisecond) }

// Stop stops the node's handler (closes its store).
func (nd *Node) Stop() {
	if !nd.Up {
		return
	}
	nd.Up = false
	nd.H.Stop(context.Background())
}

// Restart boots a stopped node again in catch-up mode. fresh = start from an empty store.
func (nd *Node) Restart(fresh bool) error {
	if nd.Up {
		return errors.New("node is up")
	}
	if err := nd.Boot(fresh); err != nil {
		return err
	}
	nd.H.Catchup(context.Background())
	nd.net.pause()
	return nil
}

// Close stops everything and removes scratch folders.
func (n *Net) Close() {
	n.mu.Lock()
	n.closed = true
	n.mu.Unlock()
	for _, nd := range n.extra {
		if nd.Up {
			nd.Stop()
		}
	}
	for _, nd := range n.extra {
		if nd.dir != "" {
			_ = os.RemoveAll(nd.dir)
		}
	}
}

// SetLink sets the policy for partials from -> to.
func (n *Net) SetLink(from, to, policy int) {
	n.mu.Lock()
	n.links[[2]int{from, to}] = policy
	n.mu.Unlock()
}

// SetAllLinks sets one policy everywhere.
func (n *Net) SetAllLinks(policy int) {
	n.mu.Lock()
	for i := range n.Nodes {
		for j := range n.Nodes {
			n.links[[2]int{i, j}] = policy
		}
	}
	n.mu.Unlock()
}

func (n *Net) link(from, to int) int {
	n.mu.Lock()
	defer n.mu.Unlock()
	return n.links[[2]int{from, to}]
}

// Advance moves the clocks of the given nodes (all if nil) forward by d.
func (n *Net) Advance(nodes []int, d time.Duration) {
	if nodes == nil {
		for _, nd := range n.Nodes {
			nd.Clock.Advance(d)
		}
		return
	}
	for _, i := range nodes {
		n.Nodes[i].Clock.Advance(d)
	}
}

// Settle waits until no delivery is in flight and nothing was recorded for quiet consecutive milliseconds (cap maxWait).
// It only decides which interleaving is explored; it never feeds an oracle.
func (n *Net) Settle() { n.SettleFor(12*time.Millisecond, 3*time.Second) }

func (n *Net) SettleFor(quiet, maxWait time.Duration) bool {
	deadline := time.Now().Add(maxWait)
	last := n.actions.Load()
	lastChange := time.Now()
	for time.Now().Before(deadline) {
		time.Sleep(1 * time.Millisecond)
		cur := n.actions.Load()
		if cur != last || n.active.Load() > 0 {
			last = cur
			lastChange = time.Now()
			continue
		}
		if time.Since(lastChange) >= quiet {
			return true
		}
	}
	return false
}

func peerCtx(ctx context.Context, addr string) context.Context {
	host, port, err := gonet.SplitHostPort(addr)
	var a gonet.Addr = strAddr(addr)
	if err == nil {
		if ip := gonet.ParseIP(host); ip != nil {
			var p int
			_, _ = fmt.Sscanf(port, "%d", &p)
			a = &gonet.TCPAddr{IP: ip, Port: p}
		}
	}
	return peer.NewContext(ctx, &peer.Peer{Addr: a})
}

type strAddr string

func (s strAddr) Network() string { return "tcp" }
func (s strAddr) String() string  { return string(s) }

// NodeByAddr finds a node.
func (n *Net) NodeByAddr(addr string) *Node {
	n.mu.Lock()
	defer n.mu.Unlock()
	return n.extra[addr]
}

// client is the ProtocolClient handed to a node.
type client struct {
	n    *Net
	from *Node
}

var _ dnet.ProtocolClient = (*client)(nil)

func (c *client) GetIdentity(ctx context.Context, p dnet.Peer, in *proto.IdentityRequest, _ ...dnet.CallOption) (*proto.IdentityResponse, error) {
	return nil, errors.New("not served by the harness network")
}

func (c *client) Status(context.Context, dnet.Peer, *proto.StatusRequest, ...grpc.CallOption) (*proto.StatusResponse, error) {
	return nil, errors.New("not served by the harness network")
}

func (c *client) Check(ctx context.Context, p dnet.Peer) error { return nil }

func (c *client) PartialBeacon(ctx context.Context, p dnet.Peer, in *proto.PartialBeaconPacket, _ ...dnet.CallOption) error {
	n := c.n
	to := n.NodeByAddr(p.Address())
	ev := &PartialEvent{Seq: n.seq.Add(1), Step: n.Step(), From: c.from.Pos, FromAddr: c.from.Addr, To: -1, Round: in.GetRound(),
		Prev: append([]byte(nil), in.GetPreviousSignature()...), Sig: append([]byte(nil), in.GetPartialSig()...), SenderClock: c.from.Clock.Now().Unix()}
	if to != nil {
		ev.To = to.Pos
	}
	n.mu.Lock()
	closed := n.closed
	n.Tap = append(n.Tap, ev)
	pol := LinkInline
	if to != nil {
		pol = n.links[[2]int{c.from.Pos, to.Pos}]
	}
	ev.Policy = pol
	if pol == LinkQueue && !closed {
		n.queue = append(n.queue, &queued{ev: ev, pkt: in})
	}
	n.mu.Unlock()
	n.actions.Add(1)
	if closed || to == nil {
		ev.Err, ev.Done = "unreachable", true
		return errors.New("unreachable")
	}
	switch pol {
	case LinkDrop:
		ev.Err, ev.Done = "dropped", true
		return errors.New("connection refused (harness drop)")
	case LinkQueue:
		return nil
	}
	err := n.deliver(ev, in, to)
	if pol == LinkDup {
		ev2 := *ev
		ev2.Seq = n.seq.Add(1)
		n.mu.Lock()
		n.Tap = append(n.Tap, &ev2)
		n.mu.Unlock()
		_ = n.deliver(&ev2, in, to)
	}
	return err
}

func (n *Net) deliver(ev *PartialEvent, pkt *proto.PartialBeaconPacket, to *Node) error {
	n.active.Add(1)
	defer n.active.Add(-1)
	defer n.actions.Add(1)
	if !to.Up {
		ev.Err, ev.Done = "peer down", true
		return errors.New("peer down")
	}
	h := to.H
	n.mu.Lock()
	ev.Started = true
	n.mu.Unlock()
	_, err := h.ProcessPartialBeacon(peerCtx(context.Background(), ev.FromAddr), pkt)
	n.mu.Lock()
	if err != nil {
		ev.Err = err.Error()
	}
	ev.Done = true
	n.mu.Unlock()
	return err
}

// QueueLen returns the number of held partials.
func (n *Net) QueueLen() int {
	n.mu.Lock()
	defer n.mu.Unlock()
	return len(n.queue)
}

// DeliverQueued delivers the held partial at index i (order chosen by the caller).
func (n *Net) DeliverQueued(i int) {
	n.mu.Lock()
	if i >= len(n.queue) {
		n.mu.Unlock()
		return
	}
	q := n.queue[i]
	n.queue = append(n.queue[:i], n.queue[i+1:]...)
	n.mu.Unlock()
	q.ev.Seq = n.seq.Add(1) // delivery start is what orders it against Puts
	_ = n.deliver(q.ev, q.pkt, n.Nodes[q.ev.To])
}

// DropQueued discards the held partial at index i.
func (n *Net) DropQueued(i int) {
	n.mu.Lock()
	defer n.mu.Unlock()
	if i < len(n.queue) {
		n.queue[i].ev.Err, n.queue[i].ev.Done = "dropped from queue", true
		n.queue = append(n.queue[:i], n.queue[i+1:]...)
	}
}

// Inject offers a partial built by the harness to node `to`, claiming to come from fromAddr.
func (n *Net) Inject(to int, fromAddr string, pkt *proto.PartialBeaconPacket, label string) *PartialEvent {
	ev := &PartialEvent{Seq: n.seq.Add(1), Step: n.Step(), From: -1, FromAddr: fromAddr, To: to, Round: pkt.GetRound(),
		Prev: append([]byte(nil), pkt.GetPreviousSignature()...), Sig: append([]byte(nil), pkt.GetPartialSig()...), Injected: true, Label: label}
	n.mu.Lock()
	n.Tap = append(n.Tap, ev)
	n.mu.Unlock()
	_ = n.deliver(ev, pkt, n.Nodes[to])
	return ev
}

// memStream is the in-memory SyncStream handed to the serving node's SyncChain.
type memStream struct {
	ctx    context.Context
	ch     chan *proto.BeaconPacket
	n      *Net
	req    string // requester address
	mu     sync.RWMutex
	closed bool
}

// finish closes the client-side channel once no Send is in progress (late callbacks may still call Send afterwards).
func (m *memStream) finish() {
	m.mu.Lock()
	m.closed = true
	close(m.ch)
	m.mu.Unlock()
}

func (m *memStream) Context() context.Context { return m.ctx }
func (m *memStream) Send(b *proto.BeaconPacket) error {
	m.mu.RLock()
	defer m.mu.RUnlock()
	if m.closed {
		return errors.New("stream closed")
	}
	// noted before the hand-off: the receiver may store the beacon before this goroutine runs again
	m.n.noteSyncDelivery(m.req, b.GetRound())
	select {
	case <-m.ctx.Done():
		return m.ctx.Err()
	case m.ch <- b:
		m.n.actions.Add(1)
		return nil
	}
}

func (c *client) SyncChain(ctx context.Context, p dnet.Peer, in *proto.SyncRequest, _ ...dnet.CallOption) (chan *proto.BeaconPacket, error) {
	n := c.n
	to := n.NodeByAddr(p.Address())
	ev := &SyncEvent{Seq: n.seq.Add(1), From: c.from.Pos, To: -1, FromRnd: in.GetFromRound()}
	if to != nil {
		ev.To = to.Pos
	}
	n.mu.Lock()
	n.Syncs = append(n.Syncs, ev)
	script := n.SyncScript
	closed := n.closed
	n.mu.Unlock()
	n.actions.Add(1)
	if closed {
		return nil, errors.New("network closed")
	}
	if script != nil {
		if ch, err, handled := script(c.from, p.Address(), in, ctx); handled {
			if err != nil {
				ev.Err = err.Error()
			}
			return ch, err
		}
	}
	if spec := n.liar(p.Address()); spec != nil {
		ch, err := n.lieStream(ctx, spec, in.GetFromRound(), c.from.Addr)
		if err != nil {
			ev.Err = err.Error()
		}
		ev.Lie = LieNames[spec.Kind]
		return ch, err
	}
	if n.Cfg.SyncOff {
		ev.Err = "sync unavailable"
		return nil, errors.New("sync unavailable (harness)")
	}
	if to == nil || !to.Up {
		ev.Err = "peer down"
		return nil, errors.New("peer down")
	}
	if pol := n.link(c.from.Pos, to.Pos); pol == LinkDrop {
		ev.Err = "partitioned"
		return nil, errors.New("connection refused (harness partition)")
	}
	return n.ServeSync(ctx, to, c.from.Addr, in), nil
}

// ServeSync runs the real beacon.SyncChain of node `to` for a requester and returns the client-side channel.
func (n *Net) ServeSync(ctx context.Context, to *Node, requester string, in *proto.SyncRequest) chan *proto.BeaconPacket {
	ch := make(chan *proto.BeaconPacket, 16)
	sctx, cancel := context.WithCancel(peerCtx(ctx, requester))
	ms := &memStream{ctx: sctx, ch: ch, n: n, req: requester}
	go func() {
		_ = beacon.SyncChain(to.Log, to.H.Store(), in, ms)
		cancel()
		ms.finish()
		n.actions.Add(1)
	}()
	return ch
}

// noteSyncDelivery records that a beacon of `round` was handed to the requester through a sync stream.
func (n *Net) noteSyncDelivery(requester string, round uint64) {
	n.mu.Lock()
	if n.syncDelivered == nil {
		n.syncDelivered = map[string]map[uint64]int64{}
	}
	m := n.syncDelivered[requester]
	if m == nil {
		m = map[uint64]int64{}
		n.syncDelivered[requester] = m
	}
	if _, ok := m[round]; !ok {
		m[round] = n.seq.Add(1)
	}
	n.mu.Unlock()
}

// SyncedBefore reports whether `round` was delivered to the node at addr through a sync stream before sequence number seq.
func (n *Net) SyncedBefore(addr string, round uint64, seq int64) bool {
	n.mu.Lock()
	defer n.mu.Unlock()
	s, ok := n.syncDelivered[addr][round]
	return ok && s < seq
}

// Head returns the node's last stored round (through the handler's store stack).
func (nd *Node) Head() (uint64, error) {
	b, err := nd.H.Store().Last(context.Background())
	if err != nil {
		return 0, err
	}
	return b.Round, nil
}

// ClockRound returns the round of the node's clock.
func (nd *Node) ClockRound() uint64 {
	return common.CurrentRound(nd.Clock.Now().Unix(), nd.net.Cfg.Period, nd.net.Fx.Group.GenesisTime)
}

// WaitHeads waits (real time, capped) until every up node in `nodes` (all if nil) has head >= target. Returns false on timeout.
func (n *Net) WaitHeads(nodes []int, target uint64, maxWait time.Duration) bool {
	deadline := time.Now().Add(maxWait)
	for {
		ok := true
		for i, nd := range n.Nodes {
			if nodes != nil && !contains(nodes, i) {
				continue
			}
			if !nd.Up {
				continue
			}
			if h, err := nd.Head(); err != nil || h < target {
				ok = false
				break
			}
		}
		if ok {
			return true
		}
		if time.Now().After(deadline) {
			return false
		}
		time.Sleep(time.Millisecond)
	}
}

func contains(xs []int, x int) bool {
	for _, y := range xs {
		if y == x {
			return true
		}
	}
	return false
}

// ---- resharing (the orchestration that internal/core performs around the beacon handler, re-implemented by the harness) ----

// PlanReshare builds the next epoch: the nodes at positions keep remain (same identity), add joiners are created,
// threshold t1, transition at the start of round rT.
func (n *Net) PlanReshare(keep []int, add, t1 int, rT uint64, label string) *fx.Net {
	var epochKeep []int
	for _, pos := range keep {
		addr := n.Nodes[pos].Addr
		for i, p := range n.Live.Pairs {
			if p.Public.Addr == addr {
				epochKeep = append(epochKeep, i)
			}
		}
	}
	tt := n.timeOfRound(rT).Int64()
	return n.Live.Reshare(fx.ReshareOpts{Keep: epochKeep, Add: add, T: t1, Transition: tt, Label: label})
}

// epochPos returns the position of addr inside epoch e, or -1.
func epochPos(e *fx.Net, addr string) int {
	for i, p := range e.Pairs {
		if p.Public.Addr == addr {
			return i
		}
	}
	return -1
}

// SwitchRemainer hands the new share and group to a running node (what core's transitionToNext does).
func (n *Net) SwitchRemainer(nd *Node, next *fx.Net) error {
	i := epochPos(next, nd.Addr)
	if i < 0 {
		return fmt.Errorf("%s is not in the next epoch", nd.Addr)
	}
	nd.H.TransitionNewGroup(context.Background(), next.Shares[i], next.Group)
	nd.Share, nd.Group = next.Shares[i], next.Group
	return nil
}

// AddJoiner creates and starts a node that is new in epoch `next` (what core's joinNetwork does): it syncs with the
// previous group until the transition and then takes part.
func (n *Net) AddJoiner(next *fx.Net, i int, prevGroup *key.Group, clockOf *Node) (*Node, error) {
	nd, err := n.newNode(len(n.Nodes), next, i, n.Cfg.Backend)
	if err != nil {
		return nil, err
	}
	// same wall clock as the rest of the network
	nd.Clock = clock.NewFakeClockAt(clockOf.Clock.Now())
	n.mu.Lock()
	n.Nodes = append(n.Nodes, nd)
	n.mu.Unlock()
	if err := nd.Boot(true); err != nil {
		return nil, err
	}
	if err := nd.H.Transition(context.Background(), prevGroup); err != nil {
		return nil, err
	}
	n.pause()
	return nd, nil
}
