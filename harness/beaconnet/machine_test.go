package beaconnet

import (
	"context"
	"fmt"
	"os"
	"strings"
	"testing"
	"time"

	proto "github.com/drand/drand/v2/protobuf/drand"
	"github.com/drand/drand/v2/verifharness/fx"
	"github.com/drand/drand/v2/verifharness/stats"
	"pgregory.net/rapid"
)

// machine is the rapid state machine shared by C01, C02 and C04: which oracles run and how actions are biased
// depends on the property under check (VERIF_PROP), so each property's evidence comes from its own runs.
type machine struct {
	prop   string
	net    *Net
	rec    *stats.Rec
	hist   []string
	flags  map[string]bool
	parted bool
	queued bool
	salt   int
}

func propFromEnv(def string) string {
	if p := os.Getenv("VERIF_PROP"); p != "" {
		return p
	}
	return def
}

var debugT = os.Getenv("VERIF_DEBUG") != ""
var lastNote = time.Now()

func (m *machine) note(format string, a ...any) {
	m.hist = append(m.hist, fmt.Sprintf(format, a...))
	if debugT {
		fmt.Fprintf(os.Stderr, "[%6.0fms] %s\n", float64(time.Since(lastNote).Microseconds())/1000, m.hist[len(m.hist)-1])
		lastNote = time.Now()
	}
}

func (m *machine) desc() string {
	c := m.net.Cfg
	return fmt.Sprintf("%s n=%d t=%d %s period=%v catchup=%v memcap=%d :: %s", c.Scheme, c.N, c.T, BackendNames[c.Backend], c.Period, c.Catchup, c.MemCap, strings.Join(m.hist, " "))
}

func (m *machine) fail(t *rapid.T, f *Finding) {
	art := map[string]any{"history": m.hist, "config": fmt.Sprintf("%+v", m.net.Cfg), "finding": f.Artefact}
	m.rec.Violation(t, f.Key, f.Detail+" || case: "+m.desc(), art)
}

// check runs the oracles owned by the property under check.
func (m *machine) check(t *rapid.T) {
	n := m.net
	if f := n.FatalLogged(); f != nil {
		t.Fatalf("fatal log event (harness must look at this): %s || %s", f.Detail, m.desc())
	}
	switch m.prop {
	case "C01":
		if f := n.CheckStored(); f != nil {
			m.fail(t, f)
		}
	case "C02":
		if f := n.CheckHistory(); f != nil {
			m.fail(t, f)
		}
		for _, nd := range n.Nodes {
			if f := n.ScanNode(nd); f != nil {
				m.fail(t, f)
			}
		}
	case "C04":
		if f := n.CheckEmissionTimes(); f != nil {
			m.fail(t, f)
		}
	}
}

func (m *machine) upCount() int {
	c := 0
	for _, nd := range m.net.Nodes {
		if nd.Up {
			c++
		}
	}
	return c
}

// healthy: enough connected nodes that progress is expected (used only to pick the wait strategy).
func (m *machine) healthy() bool { return !m.parted && !m.queued && m.upCount() >= m.net.Cfg.T }

func (m *machine) minClockRound() uint64 {
	var min uint64
	first := true
	for _, nd := range m.net.Nodes {
		if !nd.Up {
			continue
		}
		if r := nd.ClockRound(); first || r < min {
			min, first = r, false
		}
	}
	return min
}

// level reports whether every up node's head is at its clock round (or one before): then a tick is expected to complete a round.
func (m *machine) level() bool {
	for _, nd := range m.net.Nodes {
		if !nd.Up {
			continue
		}
		h, err := nd.Head()
		if err != nil || h != nd.ClockRound() {
			return false
		}
	}
	return true
}

func (m *machine) wait() { m.net.Settle() }

// tickWait is used after advancing all clocks by exactly one period from a level state.
func (m *machine) tickWait(wasLevel bool) {
	if wasLevel && m.healthy() {
		m.net.WaitHeads(nil, m.minClockRound(), 1500*time.Millisecond)
	}
	m.net.Settle()
}

func genConfig(t *rapid.T, prop string) Config {
	n := rapid.IntRange(2, 6).Draw(t, "n")
	if prop == "C02" || prop == "C04" {
		n = rapid.IntRange(3, 6).Draw(t, "n3")
	}
	cfg := Config{
		Seed:     rapid.Uint64Range(1, 1<<32).Draw(t, "keyseed"),
		Scheme:   rapid.SampledFrom(fx.SchemeNames).Draw(t, "scheme"),
		N:        n,
		T:        rapid.IntRange(n/2+1, n).Draw(t, "t"),
		Backend:  rapid.IntRange(0, NBackends-1).Draw(t, "backend"),
		Period:   time.Duration(rapid.IntRange(2, 6).Draw(t, "period")) * time.Second,
		BeaconID: rapid.SampledFrom([]string{"default", "machine"}).Draw(t, "id"),
	}
	cfg.Catchup = time.Duration(rapid.IntRange(1, int(cfg.Period/time.Second)).Draw(t, "catchup")) * time.Second
	if cfg.Backend == BackMem && rapid.Bool().Draw(t, "smallring") {
		cfg.MemCap = 10
	}
	if rapid.IntRange(0, 2).Draw(t, "chainedBias") == 0 {
		cfg.Scheme = fx.SchemeNames[0]
	}
	return cfg
}

func runMachine(t *rapid.T, prop string, rec *stats.Rec) {
	cfg := genConfig(t, prop)
	net, err := New(cfg)
	if err != nil {
		t.Fatalf("new net: %v", err)
	}
	defer net.Close()
	cfg = net.Cfg
	m := &machine{prop: prop, net: net, rec: rec, flags: map[string]bool{}}
	if err := net.StartAll(); err != nil {
		t.Fatalf("start: %v", err)
	}
	// before genesis the clock round is 0 and round 1 is the next one: a (perfectly valid) partial for round 2 or 3 from a
	// member whose clock runs ahead is more than one round in the future and must be refused, round 1 is tolerated
	if k := rapid.IntRange(0, 3).Draw(t, "preGenesisPartial"); k > 0 && cfg.N >= 2 {
		to := rapid.IntRange(0, cfg.N-1).Draw(t, "preTo")
		signer := (to + 1) % cfg.N
		seed := net.Fx.Group.GenesisSeed
		sig1 := net.Live.Sign(1, seed)
		sig2 := net.Live.Sign(2, sig1)
		round, prev := uint64(k), seed
		switch k {
		case 2:
			prev = sig1
		case 3:
			prev = sig2
		}
		pkt := net.packet(round, prev, signAt(net.Live, int(net.Live.Indices[signer]), round, prev))
		ev := net.Inject(to, net.Nodes[signer].Addr, pkt, fmt.Sprintf("pre-genesis-round-%d", round))
		m.note("pre-genesis-inject(r=%d,to=%d)->%q", round, to, trunc(ev.Err, 30))
		m.flags["pre-genesis-partial"] = true
		if prop == "C04" && round >= 2 && ev.Err == "" {
			m.fail(t, &Finding{"C04/future-partial-accepted", fmt.Sprintf("node %d accepted a partial for round %d before genesis (clock round 0: more than one round ahead)", to, round), nil})
		}
	}
	net.NextStep()
	net.Advance(nil, cfg.GenesisIn)
	m.note("genesis")
	m.tickWait(true)
	nodeGen := rapid.IntRange(0, cfg.N-1)

	tick := func(t *rapid.T) {
		lvl := m.level()
		net.NextStep()
		net.Advance(nil, cfg.Period)
		m.note("tick")
		m.tickWait(lvl)
	}
	actions := map[string]func(*rapid.T){
		"tick": tick, "tick2": tick, "tick3": tick,
		"subtick": func(t *rapid.T) {
			s := rapid.IntRange(1, int(cfg.Period/time.Second)).Draw(t, "secs")
			net.NextStep()
			net.Advance(nil, time.Duration(s)*time.Second)
			m.note("adv(%ds)", s)
			m.wait()
		},
		"catchupWalk": func(t *rapid.T) {
			// time passes in steps of the catch-up period (what a group that fell behind lives through after an outage): catch-up
			// timers started at different instants straddle round boundaries while ticks and syncs move the head
			k := rapid.IntRange(2, 8).Draw(t, "steps")
			for i := 0; i < k; i++ {
				net.NextStep()
				net.Advance(nil, cfg.Catchup)
				m.wait()
			}
			m.note("catchupWalk(%dx%ds)", k, int(cfg.Catchup/time.Second))
			m.flags["catchup-walk"] = true
		},
		"lateAggregate": func(t *rapid.T) {
			// one node is cut off for a few rounds while the others go on (its requests are lost, what the others send it is held
			// back); shortly before a tick the held partials of its next round arrive, so it aggregates an old round and arms its
			// catch-up timer; the tick then lets it sync up to the clock; the timer fires between two ticks
			if cfg.T > cfg.N-1 || cfg.Catchup < 2*time.Second || m.parted || m.queued || !m.level() {
				t.Skip("needs a spare member, a catch-up period of 2 s or more and a level network")
			}
			x := nodeGen.Draw(t, "lagger")
			if !net.Nodes[x].Up {
				t.Skip("down")
			}
			for i := 0; i < cfg.N; i++ {
				if i != x {
					net.SetLink(x, i, LinkDrop)
					net.SetLink(i, x, LinkQueue)
				}
			}
			k := rapid.IntRange(2, 3).Draw(t, "roundsBehind")
			for i := 0; i < k; i++ {
				net.NextStep()
				net.Advance(nil, cfg.Period)
				m.wait()
			}
			// to one second before the next tick
			net.NextStep()
			net.Advance(nil, cfg.Period-time.Second)
			m.wait()
			hx, _ := net.Nodes[x].Head()
			delivered := 0
			for again := true; again; {
				again = false
				net.mu.Lock()
				idx := -1
				for i, q := range net.queue {
					if q.ev.To == x && q.ev.Round == hx+1 {
						idx = i
						break
					}
				}
				net.mu.Unlock()
				if idx >= 0 {
					net.DeliverQueued(idx)
					delivered++
					again = true
				}
			}
			m.wait()
			// the rest of what was held back is lost; links are back
			for net.QueueLen() > 0 {
				net.DropQueued(0)
			}
			net.SetAllLinks(LinkInline)
			net.NextStep()
			net.Advance(nil, time.Second) // the tick: the lagger syncs up to the clock
			m.wait()
			net.NextStep()
			net.Advance(nil, cfg.Catchup-time.Second) // its catch-up timer fires before the next tick (or on it)
			m.wait()
			h2, _ := net.Nodes[x].Head()
			m.note("lateAggregate(n%d,behind=%d,delivered=%d,head %d->%d)", x, k, delivered, hx, h2)
			m.flags["late-aggregation"] = true
		},
		"burst": func(t *rapid.T) {
			k := rapid.IntRange(2, 6).Draw(t, "periods")
			net.NextStep()
			net.Advance(nil, time.Duration(k)*cfg.Period)
			m.note("burst(%d)", k)
			m.flags["burst"] = true
			m.wait()
		},
		"skew": func(t *rapid.T) {
			// advance a subset only: the others stall (per-node skew / stall longer than a period)
			var sub []int
			for i := 0; i < cfg.N; i++ {
				if rapid.Bool().Draw(t, fmt.Sprintf("adv%d", i)) {
					sub = append(sub, i)
				}
			}
			if len(sub) == 0 || len(sub) == cfg.N {
				sub = []int{nodeGen.Draw(t, "one")}
			}
			s := rapid.IntRange(1, 3*int(cfg.Period/time.Second)).Draw(t, "secs")
			net.NextStep()
			net.Advance(sub, time.Duration(s)*time.Second)
			m.note("skew(%v,%ds)", sub, s)
			m.flags["skew"] = true
			m.wait()
		},
		"realign": func(t *rapid.T) {
			// released stalled nodes: bring every clock to the maximum
			var max time.Time
			for _, nd := range net.Nodes {
				if nd.Clock.Now().After(max) {
					max = nd.Clock.Now()
				}
			}
			net.NextStep()
			for _, nd := range net.Nodes {
				if d := max.Sub(nd.Clock.Now()); d > 0 {
					nd.Clock.Advance(d)
					m.flags["stall-released"] = true
				}
			}
			m.note("realign")
			m.wait()
		},
		"cut": func(t *rapid.T) {
			side := make([]bool, cfg.N)
			for i := range side {
				side[i] = rapid.Bool().Draw(t, fmt.Sprintf("side%d", i))
			}
			for i := 0; i < cfg.N; i++ {
				for j := 0; j < cfg.N; j++ {
					if side[i] != side[j] {
						net.SetLink(i, j, LinkDrop)
					} else {
						net.SetLink(i, j, LinkInline)
					}
				}
			}
			m.parted, m.queued = true, false
			m.note("cut(%v)", side)
			m.flags["partition"] = true
		},
		"heal": func(t *rapid.T) {
			if !m.parted && !m.queued {
				t.Skip("nothing to heal")
			}
			net.SetAllLinks(LinkInline)
			for net.QueueLen() > 0 {
				net.DeliverQueued(0)
			}
			if m.parted {
				m.flags["heal"] = true
			}
			m.parted, m.queued = false, false
			m.note("heal")
			m.wait()
		},
		"queue": func(t *rapid.T) {
			net.SetAllLinks(LinkQueue)
			m.queued, m.parted = true, false
			m.note("queue-mode")
		},
		"dup": func(t *rapid.T) {
			net.SetAllLinks(LinkDup)
			m.queued, m.parted = false, false
			m.note("dup-mode")
			m.flags["dup"] = true
		},
		"deliver": func(t *rapid.T) {
			if net.QueueLen() == 0 {
				t.Skip("queue empty")
			}
			k := rapid.IntRange(1, 8).Draw(t, "k")
			var order []int
			for i := 0; i < k && net.QueueLen() > 0; i++ {
				idx := rapid.IntRange(0, net.QueueLen()-1).Draw(t, "idx")
				if rapid.IntRange(0, 9).Draw(t, "drop") == 0 {
					net.DropQueued(idx)
					order = append(order, -idx-1)
				} else {
					net.DeliverQueued(idx)
					order = append(order, idx)
				}
			}
			m.note("deliver%v", order)
			m.flags["reorder"] = true
			net.Settle()
		},
		"stop": func(t *rapid.T) {
			i := nodeGen.Draw(t, "node")
			if !net.Nodes[i].Up {
				t.Skip("already down")
			}
			net.Nodes[i].Stop()
			m.note("stop(%d)", i)
			m.flags["stop"] = true
		},
		"restart": func(t *rapid.T) {
			i := nodeGen.Draw(t, "node")
			if net.Nodes[i].Up {
				t.Skip("node is up")
			}
			fresh := rapid.Bool().Draw(t, "fresh")
			if err := net.Nodes[i].Restart(fresh); err != nil {
				t.Fatalf("restart: %v", err)
			}
			m.note("restart(%d,fresh=%v)", i, fresh)
			m.flags["restart"] = true
			m.wait()
		},
		"inject": func(t *rapid.T) {
			to := nodeGen.Draw(t, "to")
			if !net.Nodes[to].Up {
				t.Skip("target down")
			}
			kind := rapid.IntRange(0, NAdvKinds-1).Draw(t, "kind")
			signer := nodeGen.Draw(t, "signer")
			head, err := net.Nodes[to].Head()
			if err != nil {
				t.Skip("no head")
			}
			round := head + uint64(rapid.IntRange(0, 2).Draw(t, "ahead"))
			if round == 0 {
				round = 1
			}
			var prev []byte
			if b, err := net.Nodes[to].H.Store().Get(context.Background(), round-1); err == nil {
				prev = b.Signature
			}
			m.salt++
			pkt, label := net.Forge(kind, signer, to, round, prev, m.salt)
			from := net.Nodes[signer].Addr
			if rapid.IntRange(0, 4).Draw(t, "outsider") == 0 {
				from = "203.0.113.7:4444"
			}
			if kind == AdvFutureRound || (m.prop == "C04" && kind == AdvValid && rapid.Bool().Draw(t, "ahead-of-clock")) {
				// C04 second clause: a VALID partial for a round beyond the receiver's clock round + 1 must be refused;
				// one for clock round + 1 is within the documented tolerance.
				cr := net.Nodes[to].ClockRound()
				if net.Nodes[to].Clock.Now().Unix() < net.Fx.Group.GenesisTime {
					cr = 0
				}
				ahead := uint64(rapid.SampledFrom([]int{1, 2, 2, 3, 10}).Draw(t, "clock-ahead"))
				fr := cr + ahead
				if s := signer; net.liveIndexOf(s) == net.liveIndexOf(to) {
					signer = (s + 1) % cfg.N
				}
				pkt = net.packet(fr, prev, signAt(net.Live, int(net.Live.Indices[signer]), fr, prev))
				label = fmt.Sprintf("valid-for-clock+%d", ahead)
				ev := net.Inject(to, net.Nodes[signer].Addr, pkt, label)
				m.note("inject(%s,signer=%d,to=%d,r=%d)->%q", label, signer, to, fr, trunc(ev.Err, 30))
				m.flags["future-partial"] = true
				if m.prop == "C04" && ahead >= 2 && ev.Err == "" {
					m.fail(t, &Finding{"C04/future-partial-accepted", fmt.Sprintf("node %d at clock round %d accepted a partial for round %d (more than one round ahead)", to, cr, fr), nil})
				}
				net.Settle()
				return
			}
			ev := net.Inject(to, from, pkt, label)
			m.note("inject(%s,signer=%d,to=%d,r=%d)->%q", label, signer, to, round, trunc(ev.Err, 40))
			if kind != AdvValid {
				m.flags["hostile"] = true
			}
			m.flags["inject"] = true
			net.Settle()
		},
		"liar": func(t *rapid.T) {
			// a corrupted member answers sync requests with a scripted hostile stream (its handler otherwise runs honestly)
			i := nodeGen.Draw(t, "liar")
			kind := rapid.IntRange(1, NLieKinds-1).Draw(t, "lie")
			var have uint64
			for _, nd := range net.Nodes {
				if r := nd.ClockRound(); r > have {
					have = r
				}
			}
			if net.Nodes[0].Clock.Now().Unix() < net.Fx.Group.GenesisTime {
				have = 0
			}
			net.SetLiar(net.Nodes[i].Addr, &LieSpec{Kind: kind, At: rapid.IntRange(0, 4).Draw(t, "at"), Have: have})
			m.note("liar(%d,%s)", i, LieNames[kind])
			m.flags["lying-sync-peer"] = true
		},
		"unliar": func(t *rapid.T) {
			i := nodeGen.Draw(t, "liar")
			net.SetLiar(net.Nodes[i].Addr, nil)
			m.note("unliar(%d)", i)
		},
		"syncTap": func(t *rapid.T) {
			// read a peer sync stream like a remote node would and check every item served (C01 serving clause)
			from := nodeGen.Draw(t, "server")
			nd := net.Nodes[from]
			if !nd.Up {
				t.Skip("server down")
			}
			head, _ := nd.Head()
			start := uint64(rapid.IntRange(0, int(head)+1).Draw(t, "start"))
			ctx, cancel := context.WithTimeout(context.Background(), 300*time.Millisecond)
			defer cancel()
			ch := net.ServeSync(ctx, nd, "198.51.100.9:1", &proto.SyncRequest{FromRound: start, Metadata: &proto.Metadata{BeaconID: cfg.BeaconID}})
			got := 0
			want := start
			for b := range ch {
				got++
				if m.prop == "C01" {
					if b.GetRound() >= 1 {
						if err := net.VerifyBeacon(b.GetRound(), b.GetSignature(), b.GetPreviousSignature()); err != nil {
							m.fail(t, &Finding{"C01/served-beacon-does-not-verify", fmt.Sprintf("node %d streamed round %d sig %s prev %s that does not verify: %v", from, b.GetRound(), short(b.GetSignature()), short(b.GetPreviousSignature()), err), nil})
						}
					}
					// a memdb ring no longer holds rounds below its window: a stream asked to start there begins at the lowest round
					// still stored (the statement's "round r" clause is about single-round requests; C11 covers stream order)
					ringStart := got == 1 && cfg.Backend == BackMem && b.GetRound() > want
					if start >= 1 && b.GetRound() != want && !ringStart {
						m.fail(t, &Finding{"C01/stream-wrong-round", fmt.Sprintf("node %d sync stream from %d delivered round %d where %d was due", from, start, b.GetRound(), want), nil})
					}
					want = b.GetRound() + 1
				}
				if uint64(got) > head+3 {
					break
				}
			}
			cancel()
			m.note("syncTap(%d,from=%d)=%d", from, start, got)
			m.flags["served"] = true
		},
	}
	// property-specific action sets
	switch prop {
	case "C04":
		delete(actions, "syncTap")
		delete(actions, "dup")
		delete(actions, "liar")
		delete(actions, "unliar")
	case "C02":
		delete(actions, "syncTap")
	}
	actions[""] = func(t *rapid.T) { m.check(t) }
	t.Repeat(actions)
	// final: heal, let everything land, check again
	net.SetAllLinks(LinkInline)
	for net.QueueLen() > 0 {
		net.DeliverQueued(0)
	}
	m.parted, m.queued = false, false
	net.NextStep()
	lvl := m.level()
	net.Advance(nil, cfg.Period)
	m.note("final-tick")
	m.tickWait(lvl)
	m.check(t)

	// evidence
	puts := 0
	for _, nd := range net.Nodes {
		for _, ev := range nd.Rec.History() {
			if ev.Err == "" && ev.Round >= 1 {
				puts++
			}
		}
	}
	lies := 0
	for _, se := range net.Syncs {
		if se.Lie != "" {
			lies++
			m.flags["lie/"+se.Lie] = true
		}
	}
	rec.LabelN("hostile-sync-streams-served", int64(lies))
	var nontrivial bool
	switch prop {
	case "C01":
		nontrivial = (m.flags["hostile"] || lies > 0) && puts > 0
	case "C02":
		nontrivial = m.flags["restart"] || m.flags["heal"] || m.flags["reorder"] || lies > 0
	case "C04":
		nontrivial = m.flags["burst"] || m.flags["skew"] || m.flags["restart"] || m.flags["stall-released"] || m.flags["future-partial"]
	}
	labels := []string{"scheme/" + cfg.Scheme, "backend/" + BackendNames[cfg.Backend]}
	for f := range m.flags {
		labels = append(labels, f)
	}
	if puts == 0 {
		labels = append(labels, "no-beacon-produced")
	}
	rec.LabelN("beacons-stored", int64(puts))
	rec.LabelN("partials-tapped", int64(len(net.Tap)))
	rec.Case(m.desc(), nontrivial, labels...)
}

func trunc(s string, n int) string {
	if len(s) > n {
		return s[:n]
	}
	return s
}

func TestMachine(t *testing.T) {
	prop := propFromEnv("C01")
	rec := stats.Open(t, prop)
	rapid.Check(t, func(rt *rapid.T) { runMachine(rt, prop, rec) })
}
