package beaconnet

import (
	"bytes"
	"context"
	"errors"
	"fmt"
	"math/big"
	"sort"

	"github.com/drand/drand/v2/common"
	"github.com/drand/drand/v2/internal/chain"
	chainerrors "github.com/drand/drand/v2/internal/chain/errors"
	"github.com/drand/drand/v2/verifharness/fx"
)

// Finding is an oracle failure: key identifies the kind, Detail the instance.
type Finding struct {
	Key, Detail string
	Artefact    any
}

func (f *Finding) Error() string { return f.Key + ": " + f.Detail }

func short(b []byte) string {
	if len(b) > 6 {
		return fmt.Sprintf("%x…(%d)", b[:6], len(b))
	}
	return fmt.Sprintf("%x", b)
}

// timeOfRound is the harness's own schedule formula.
func (n *Net) timeOfRound(r uint64) *big.Int {
	g := big.NewInt(n.Fx.Group.GenesisTime)
	if r == 0 {
		return g
	}
	d := new(big.Int).SetUint64(r - 1)
	d.Mul(d, big.NewInt(int64(n.Cfg.Period.Seconds())))
	return d.Add(d, g)
}

// VerifyBeacon checks a beacon against the harness's own copy of the group key.
func (n *Net) VerifyBeacon(round uint64, sig, prev []byte) error {
	if !fx.Chained(n.Cfg.Scheme) {
		prev = nil
	}
	k := fmt.Sprintf("%d|%x|%x", round, sig, prev)
	n.vmu.Lock()
	if err, ok := n.vcache[k]; ok {
		n.vmu.Unlock()
		return err
	}
	n.vmu.Unlock()
	err := fx.VerifyRef(n.Fx.Scheme, n.Fx.PublicKey(), round, sig, prev)
	n.vmu.Lock()
	if n.vcache == nil {
		n.vcache = map[string]error{}
	}
	n.vcache[k] = err
	n.vmu.Unlock()
	return err
}

// CheckStored (C01): every successful Put of round >= 1 on every node verifies under the group key for exactly that round
// (and, chained, for the previous signature it was put with, which must be the stored signature of round-1).
func (n *Net) CheckStored() *Finding {
	chained := fx.Chained(n.Cfg.Scheme)
	for _, nd := range n.Nodes {
		if nd.Rec == nil {
			continue
		}
		bySig := map[uint64][]byte{}
		for _, ev := range nd.Rec.History() {
			if ev.Err != "" {
				continue
			}
			if ev.Round == 0 {
				bySig[0] = ev.Sig
				continue
			}
			if err := n.VerifyBeacon(ev.Round, ev.Sig, ev.Prev); err != nil {
				return &Finding{"C01/stored-beacon-does-not-verify", fmt.Sprintf("node %d stored round %d sig %s prev %s which does not verify under the group key: %v", nd.Pos, ev.Round, short(ev.Sig), short(ev.Prev), err),
					map[string]any{"node": nd.Pos, "round": ev.Round, "sig": fmt.Sprintf("%x", ev.Sig), "prev": fmt.Sprintf("%x", ev.Prev)}}
			}
			if chained {
				if p, ok := bySig[ev.Round-1]; ok && !bytes.Equal(p, ev.Prev) {
					return &Finding{"C01/stored-prev-not-preceding", fmt.Sprintf("node %d stored round %d with previous signature %s but holds %s for round %d", nd.Pos, ev.Round, short(ev.Prev), short(p), ev.Round-1), nil}
				}
			}
			bySig[ev.Round] = ev.Sig
		}
	}
	return nil
}

// CheckHistory (C02): per node, Puts only append last+1 or repeat an identical value; pairwise equality of all stored rounds.
// allowRepair lists rounds that a repair scenario may legitimately rewrite (C10), nil otherwise.
func (n *Net) CheckHistory() *Finding {
	type val struct{ sig, prev []byte }
	global := map[uint64]val{}
	globalBy := map[uint64]int{}
	for _, nd := range n.Nodes {
		if nd.Rec == nil {
			continue
		}
		known := map[uint64]val{}
		var max uint64
		have := false
		inc := -1
		for _, ev := range nd.Rec.History() {
			if ev.Err != "" {
				continue
			}
			if ev.Incarnation != inc {
				inc = ev.Incarnation
				if ev.Round == 0 && nd.freshAt[ev.Incarnation] {
					have = false
				}
			}
			v := val{ev.Sig, ev.Prev}
			if old, ok := known[ev.Round]; ok {
				if !bytes.Equal(old.sig, v.sig) || !bytes.Equal(old.prev, v.prev) {
					return &Finding{"C02/round-rewritten", fmt.Sprintf("node %d wrote round %d twice with different values: %s/%s then %s/%s", nd.Pos, ev.Round, short(old.sig), short(old.prev), short(v.sig), short(v.prev)), nil}
				}
			}
			if have && ev.Round > max+1 {
				return &Finding{"C02/gap-in-puts", fmt.Sprintf("node %d put round %d while its head was %d", nd.Pos, ev.Round, max), nil}
			}
			if have && ev.Round <= max {
				if _, ok := known[ev.Round]; !ok {
					return &Finding{"C02/put-below-head", fmt.Sprintf("node %d put round %d below its head %d without having stored it before", nd.Pos, ev.Round, max), nil}
				}
			}
			known[ev.Round] = v
			if !have || ev.Round > max {
				max = ev.Round
			}
			have = true
			if g, ok := global[ev.Round]; ok {
				if !bytes.Equal(g.sig, v.sig) || (fx.Chained(n.Cfg.Scheme) && !bytes.Equal(g.prev, v.prev)) {
					return &Finding{"C02/nodes-disagree", fmt.Sprintf("nodes %d and %d hold different beacons for round %d: %s vs %s", globalBy[ev.Round], nd.Pos, ev.Round, short(g.sig), short(v.sig)), nil}
				}
			} else {
				global[ev.Round] = v
				globalBy[ev.Round] = nd.Pos
			}
		}
	}
	return nil
}

// ScanNode (C02): cursor scan of the base store: rounds lo..head without a hole; chained: prev(r) = sig(r-1);
// every scanned beacon equals what the Put history says.
func (n *Net) ScanNode(nd *Node) *Finding {
	if nd.Rec == nil || !nd.Up {
		return nil
	}
	want := map[uint64]*PutEvent{}
	for _, ev := range nd.Rec.History() {
		if ev.Err == "" {
			want[ev.Round] = ev
		}
	}
	var out *Finding
	var prevB *common.Beacon
	count := 0
	err := nd.Rec.Base().Cursor(context.Background(), func(ctx context.Context, c chain.Cursor) error {
		b, err := c.First(ctx)
		for ; err == nil && b != nil; b, err = c.Next(ctx) {
			count++
			if prevB != nil {
				if b.Round != prevB.Round+1 {
					out = &Finding{"C02/hole-in-chain", fmt.Sprintf("node %d store scan jumps from round %d to %d", nd.Pos, prevB.Round, b.Round), nil}
					return nil
				}
				if fx.Chained(n.Cfg.Scheme) && len(b.PreviousSig) > 0 && !bytes.Equal(b.PreviousSig, prevB.Signature) {
					out = &Finding{"C02/broken-prev-link", fmt.Sprintf("node %d round %d previous signature %s != signature of round %d %s", nd.Pos, b.Round, short(b.PreviousSig), prevB.Round, short(prevB.Signature)), nil}
					return nil
				}
			}
			if w, ok := want[b.Round]; ok && !bytes.Equal(w.Sig, b.Signature) {
				out = &Finding{"C02/stored-differs-from-put", fmt.Sprintf("node %d round %d scan returns %s, was put as %s", nd.Pos, b.Round, short(b.Signature), short(w.Sig)), nil}
				return nil
			}
			cp := *b
			prevB = &cp
		}
		if err != nil && !errors.Is(err, chainerrors.ErrNoBeaconStored) {
			return err
		}
		return nil
	})
	if out != nil {
		return out
	}
	if err != nil && !errors.Is(err, chainerrors.ErrNoBeaconStored) {
		return nil // store closed concurrently etc.: not an oracle
	}
	if nd.Back != BackMem && prevB != nil && count > 0 {
		// bolt keeps everything: the scan must start at 0
		first := prevB.Round + 1 - uint64(count)
		if first != 0 {
			return &Finding{"C02/hole-in-chain", fmt.Sprintf("node %d store scan starts at round %d", nd.Pos, first), nil}
		}
	}
	return nil
}

// CheckEmissionTimes (C04): no honest partial for round r leaves a node while its clock is before T(r).
func (n *Net) CheckEmissionTimes() *Finding {
	n.mu.Lock()
	tap := append([]*PartialEvent(nil), n.Tap...)
	n.mu.Unlock()
	for _, ev := range tap {
		if ev.Injected || ev.From < 0 {
			continue
		}
		if n.Corrupt[ev.From] {
			continue
		}
		tr := n.timeOfRound(ev.Round)
		if big.NewInt(ev.SenderClock).Cmp(tr) < 0 {
			return &Finding{"C04/partial-before-round-time", fmt.Sprintf("node %d released a partial for round %d at clock %d, %s s before that round's time %s", ev.From, ev.Round, ev.SenderClock,
				new(big.Int).Sub(tr, big.NewInt(ev.SenderClock)), tr), map[string]any{"from": ev.From, "round": ev.Round, "clock": ev.SenderClock, "round_time": tr.String(), "step": ev.Step}}
		}
	}
	return nil
}

// FatalLogged reports a Fatal log event on any node.
func (n *Net) FatalLogged() *Finding {
	for _, nd := range n.extraNodes() {
		if f := nd.Log.Root().FatalEvents(); len(f) > 0 {
			return &Finding{"fatal-log-event", fmt.Sprintf("node %d logged a fatal event: %s", nd.Pos, f[0]), nil}
		}
	}
	return nil
}

func (n *Net) extraNodes() []*Node {
	n.mu.Lock()
	defer n.mu.Unlock()
	out := make([]*Node, 0, len(n.extra))
	for _, nd := range n.extra {
		out = append(out, nd)
	}
	return out
}

// CheckThreshold (C03; sync must be off so that every Put comes from aggregation): a node's first Put of round R requires
// valid partials for exactly (R, prev-as-put) from >= t distinct live members whose delivery to that node started before the Put
// (its own partial counts if it emitted one for (R, prev) no later than the step of the Put).
// epochAt returns the epoch (polynomial, members, threshold) that the given node works with for round R (a node that left
// the group keeps its old share; members of the new group switch at the transition round).
func (n *Net) CheckThreshold(epochAt func(nd *Node, round uint64) *fx.Net) *Finding {
	n.mu.Lock()
	tap := append([]*PartialEvent(nil), n.Tap...)
	n.mu.Unlock()
	for _, nd := range n.Nodes {
		if nd.Rec == nil {
			continue
		}
		seen := map[uint64]bool{}
		for _, put := range nd.Rec.History() {
			if put.Err != "" || put.Round == 0 || seen[put.Round] {
				continue
			}
			seen[put.Round] = true
			// a round that reached the node through a sync stream before this Put was not (necessarily) aggregated by it
			if n.SyncedBefore(nd.Addr, put.Round, put.Seq) {
				continue
			}
			e := epochAt(nd, put.Round)
			if n.AltEpoch != nil {
				// the scenario may allow a second polynomial for this Put (a new group that is already live by the clock and
				// produces a round the old group still owed)
				if alt := n.AltEpoch(nd, put); alt != nil && alt != e {
					cnt := map[int]bool{}
					for _, ev := range tap {
						if ev.Round != put.Round || (fx.Chained(n.Cfg.Scheme) && !bytes.Equal(ev.Prev, put.Prev)) {
							continue
						}
						own := ev.From == nd.Pos && !ev.Injected
						if (own && ev.Step > put.Step) || (!own && (ev.To != nd.Pos || !ev.Started || ev.Seq > put.Seq)) {
							continue
						}
						if idx := n.ValidPartialIndex(alt, put.Round, put.Prev, ev.Sig); idx >= 0 {
							cnt[idx] = true
						}
					}
					if len(cnt) >= alt.T {
						continue
					}
				}
			}
			prev := put.Prev
			if fx.Chained(n.Cfg.Scheme) && len(prev) == 0 {
				// trimmed stores strip nothing at Put time; chained puts always carry prev
			}
			V := map[int]bool{}
			for _, ev := range tap {
				if ev.Round != put.Round {
					continue
				}
				if fx.Chained(n.Cfg.Scheme) && !bytes.Equal(ev.Prev, prev) {
					continue
				}
				own := ev.From == nd.Pos && !ev.Injected
				if own {
					if ev.Step > put.Step {
						continue
					}
				} else {
					if ev.To != nd.Pos || !ev.Started || ev.Seq > put.Seq {
						continue
					}
				}
				if idx := n.ValidPartialIndex(e, put.Round, prev, ev.Sig); idx >= 0 {
					V[idx] = true
				}
			}
			if len(V) < e.T {
				n.mu.Lock()
				noteSeq, noted := n.syncDelivered[nd.Addr][put.Round]
				n.mu.Unlock()
				return &Finding{"C03/beacon-below-threshold", fmt.Sprintf("node %d stored round %d although only %d distinct valid member partials for that (round, previous signature) had reached it (threshold %d): indices %v [put seq %d step %d inc %d; sync delivery noted=%v seq=%d]",
					nd.Pos, put.Round, len(V), e.T, keys(V), put.Seq, put.Step, put.Incarnation, noted, noteSeq), map[string]any{"node": nd.Pos, "round": put.Round, "have": keys(V), "threshold": e.T}}
			}
		}
	}
	return nil
}

func keys(m map[int]bool) []int {
	var out []int
	for k := range m {
		out = append(out, k)
	}
	sort.Ints(out)
	return out
}
