package beaconnet

import (
	"fmt"
	"strings"
	"testing"
	"time"

	"github.com/drand/drand/v2/verifharness/fx"
	"github.com/drand/drand/v2/verifharness/stats"
	"pgregory.net/rapid"
)

// faultStep is one period of the fault phase.
type faultStep struct {
	Kind  int    // 0 partition, 1 stop nodes, 2 lossy links, 3 nothing new
	Sides []bool // partition sides
	Stop  []int
	Loss  [][2]int
}

type c05Script struct {
	Cfg       Config
	Pre       int
	Faults    []faultStep
	RestartFr map[int]bool // restart fresh?
	StayDown  map[int]bool
	// Staller is an up node whose sync service goes silent after StallAt beacons during the healed phase (-1: none):
	// a lagging node that picks it must give up on that stream and finish with another peer
	Staller int
	StallAt int
}

func (s c05Script) String() string {
	var fs []string
	for _, f := range s.Faults {
		switch f.Kind {
		case 0:
			fs = append(fs, fmt.Sprintf("cut%v", f.Sides))
		case 1:
			fs = append(fs, fmt.Sprintf("stop%v", f.Stop))
		case 2:
			fs = append(fs, fmt.Sprintf("loss%v", f.Loss))
		default:
			fs = append(fs, "idle")
		}
	}
	c := s.Cfg
	return fmt.Sprintf("%s n=%d t=%d %s period=%v catchup=%v pre=%d faults=[%s] restartFresh=%v stayDown=%v", c.Scheme, c.N, c.T, BackendNames[c.Backend], c.Period, c.Catchup, s.Pre,
		strings.Join(fs, " "), s.RestartFr, s.StayDown) + fmt.Sprintf(" staller=%d@%d", s.Staller, s.StallAt)
}

type c05Result struct {
	ok        bool
	why       string
	gap       uint64
	usedFake  time.Duration
	budget    time.Duration
	restarted []int
	finding   *Finding
}

// runC05 executes the script once.
func runC05(s c05Script, quiet time.Duration) c05Result {
	net, err := New(s.Cfg)
	if err != nil {
		return c05Result{why: "harness: " + err.Error()}
	}
	defer net.Close()
	cfg := net.Cfg
	if err := net.StartAll(); err != nil {
		return c05Result{why: "harness: " + err.Error()}
	}
	net.NextStep()
	net.Advance(nil, cfg.GenesisIn)
	// healthy prefix: not an oracle. A node whose goroutines were slow to start can miss its very first tick (harness start-up
	// race under load); the network then catches up over the following ticks, so the prefix is extended (in 1 s steps, which also
	// drives catch-up) until every node's head equals its clock round.
	isLevel := func() bool {
		for _, nd := range net.Nodes {
			if h, err := nd.Head(); err != nil || h != nd.ClockRound() {
				return false
			}
		}
		return true
	}
	level := net.WaitHeads(nil, 1, 3*time.Second)
	for i := 0; i < s.Pre || !level; i++ {
		if i > s.Pre+12 {
			return c05Result{why: "harness: the healthy prefix did not become level"}
		}
		for k := 0; k < int(cfg.Period/time.Second); k++ {
			net.NextStep()
			net.Advance(nil, time.Second)
			net.SettleFor(quiet, 3*time.Second)
		}
		level = net.WaitHeads(nil, net.Nodes[0].ClockRound(), 2*time.Second) && isLevel()
	}
	round := net.Nodes[0].ClockRound()
	net.Settle()
	// fault phase
	stopped := map[int]bool{}
	for _, f := range s.Faults {
		switch f.Kind {
		case 0:
			for i := 0; i < cfg.N; i++ {
				for j := 0; j < cfg.N; j++ {
					if f.Sides[i] != f.Sides[j] {
						net.SetLink(i, j, LinkDrop)
					} else {
						net.SetLink(i, j, LinkInline)
					}
				}
			}
		case 1:
			for _, i := range f.Stop {
				if net.Nodes[i].Up {
					net.Nodes[i].Stop()
					stopped[i] = true
				}
			}
		case 2:
			for _, l := range f.Loss {
				net.SetLink(l[0], l[1], LinkDrop)
			}
		}
		net.NextStep()
		net.Advance(nil, cfg.Period)
		round++
		net.SettleFor(quiet, 5*time.Second)
	}
	// heal
	net.SetAllLinks(LinkInline)
	if s.Staller >= 0 && net.Nodes[s.Staller].Up {
		net.SetLiar(net.Nodes[s.Staller].Addr, &LieSpec{Kind: LieStall, At: s.StallAt, Have: round})
	}
	var restarted []int
	for i := range stopped {
		if s.StayDown[i] {
			continue
		}
		if err := net.Nodes[i].Restart(s.RestartFr[i]); err != nil {
			return c05Result{why: "harness: restart: " + err.Error()}
		}
		restarted = append(restarted, i)
	}
	restartSeq := net.seq.Load()
	var minHead uint64 = ^uint64(0)
	for _, nd := range net.Nodes {
		if nd.Up {
			if h, err := nd.Head(); err == nil && h < minHead {
				minHead = h
			}
		}
	}
	gap := uint64(0)
	if round > minHead {
		gap = round - minHead
	}
	// while g missing rounds are produced at the catch-up rate, new rounds keep becoming due at the normal rate:
	// T = g*c*p/(p-c) is when production meets the schedule; plus 4 periods of slack (sync start-up, tick alignment)
	p, c := int64(cfg.Period/time.Second), int64(cfg.Catchup/time.Second)
	budget := time.Duration((int64(gap)*c*p+(p-c)-1)/(p-c))*time.Second + 6*cfg.Period
	if len(restarted) > 0 {
		// restarted nodes first sync (a few ticks) before they contribute; with t = n nothing moves until they have
		budget += 4 * cfg.Period
	}
	if s.Staller >= 0 {
		// every time a lagging node picks the silent peer first it loses the 2 periods after which a stuck sync is renewed, plus a tick
		budget += 12 * cfg.Period
	}
	res := c05Result{gap: gap, budget: budget, restarted: restarted}
	caughtUp := func() bool {
		for _, nd := range net.Nodes {
			if !nd.Up {
				continue
			}
			h, err := nd.Head()
			if err != nil || h != nd.ClockRound() {
				return false
			}
		}
		return true
	}
	used := time.Duration(0)
	net.SettleFor(quiet, 5*time.Second)
	for used < budget && !caughtUp() {
		net.NextStep()
		net.Advance(nil, time.Second)
		used += time.Second
		net.SettleFor(quiet, 5*time.Second)
		if debugT {
			var st []string
			for _, nd := range net.Nodes {
				if nd.Up {
					h, _ := nd.Head()
					st = append(st, fmt.Sprintf("%d/%d", h, nd.ClockRound()))
				}
			}
			fmt.Printf("  +%v: %s\n", used, strings.Join(st, " "))
		}
	}
	res.usedFake = used
	if !caughtUp() {
		var st []string
		for _, nd := range net.Nodes {
			if nd.Up {
				h, _ := nd.Head()
				st = append(st, fmt.Sprintf("n%d:head=%d/clock=%d", nd.Pos, h, nd.ClockRound()))
			} else {
				st = append(st, fmt.Sprintf("n%d:down", nd.Pos))
			}
		}
		res.why = fmt.Sprintf("not caught up within %v of fake time after heal (gap %d rounds): %s", budget, gap, strings.Join(st, " "))
		return res
	}
	// no round skipped, chain intact
	if f := net.CheckHistory(); f != nil {
		res.finding = f
		return res
	}
	for _, nd := range net.Nodes {
		if f := net.ScanNode(nd); f != nil {
			res.finding = f
			return res
		}
	}
	// three more periods: exactly one round each, on every up node; align to the next round boundary first
	for k := 0; k < 3; k++ {
		net.NextStep()
		net.Advance(nil, cfg.Period)
		target := net.Nodes[firstUp(net)].ClockRound()
		if !net.WaitHeads(nil, target, 5*time.Second) {
			res.why = fmt.Sprintf("after catching up, round %d was not produced by all up nodes within a period", target)
			return res
		}
	}
	// restarted nodes contribute again: each emitted a partial after its restart
	net.mu.Lock()
	emitted := map[int]bool{}
	for _, ev := range net.Tap {
		if !ev.Injected && ev.Seq > restartSeq {
			emitted[ev.From] = true
		}
	}
	net.mu.Unlock()
	for _, i := range restarted {
		if !emitted[i] {
			res.why = fmt.Sprintf("restarted node %d never emitted a partial after rejoining", i)
			return res
		}
	}
	if f := net.FatalLogged(); f != nil {
		res.why = "fatal log event: " + f.Detail
		return res
	}
	res.ok = true
	return res
}

func firstUp(n *Net) int {
	for i, nd := range n.Nodes {
		if nd.Up {
			return i
		}
	}
	return 0
}

// TestC05Liveness: bounded liveness in fake time after generated fault scripts.
func TestC05Liveness(t *testing.T) {
	rec := stats.Open(t, "C05")
	rapid.Check(t, func(rt *rapid.T) {
		n := rapid.IntRange(3, 6).Draw(rt, "n")
		cfg := Config{
			Seed:     rapid.Uint64Range(1, 1<<32).Draw(rt, "keyseed"),
			Scheme:   rapid.SampledFrom(fx.SchemeNames).Draw(rt, "scheme"),
			N:        n,
			T:        rapid.IntRange(n/2+1, n).Draw(rt, "t"),
			Backend:  rapid.IntRange(0, NBackends-1).Draw(rt, "backend"),
			Period:   time.Duration(rapid.IntRange(2, 6).Draw(rt, "period")) * time.Second,
			BeaconID: "c05",
		}
		// a catch-up period equal to the period can never close a gap (one round per period is the normal rate): catch-up < period
		cfg.Catchup = time.Duration(rapid.IntRange(1, int(cfg.Period/time.Second)-1).Draw(rt, "catchup")) * time.Second
		s := c05Script{Cfg: cfg, Pre: rapid.IntRange(0, 3).Draw(rt, "pre"), RestartFr: map[int]bool{}, StayDown: map[int]bool{}, Staller: -1}
		nf := rapid.IntRange(1, 5).Draw(rt, "faultTicks")
		stopped := map[int]bool{}
		for i := 0; i < nf; i++ {
			f := faultStep{Kind: rapid.IntRange(0, 3).Draw(rt, "fault")}
			switch f.Kind {
			case 0:
				f.Sides = make([]bool, n)
				for j := range f.Sides {
					f.Sides[j] = rapid.Bool().Draw(rt, "side")
				}
			case 1:
				k := rapid.IntRange(1, n-1).Draw(rt, "nstop")
				for j := 0; j < k; j++ {
					x := rapid.IntRange(0, n-1).Draw(rt, "stop")
					f.Stop = append(f.Stop, x)
					stopped[x] = true
				}
			case 2:
				k := rapid.IntRange(1, n*2).Draw(rt, "nloss")
				for j := 0; j < k; j++ {
					f.Loss = append(f.Loss, [2]int{rapid.IntRange(0, n-1).Draw(rt, "a"), rapid.IntRange(0, n-1).Draw(rt, "b")})
				}
			}
			s.Faults = append(s.Faults, f)
		}
		// healed phase needs >= t nodes up: some stopped nodes may stay down
		canStayDown := n - cfg.T
		for x := range stopped {
			if canStayDown > 0 && rapid.IntRange(0, 3).Draw(rt, "stayDown") == 0 {
				s.StayDown[x] = true
				canStayDown--
			} else {
				s.RestartFr[x] = rapid.Bool().Draw(rt, "fresh")
			}
		}
		if len(stopped) > 0 && rapid.IntRange(0, 2).Draw(rt, "withStaller") == 0 {
			// only when another node that never stopped stays reachable: the silent peer must not be the only source
			var never []int
			for x := 0; x < n; x++ {
				if !stopped[x] {
					never = append(never, x)
				}
			}
			if len(never) >= 2 {
				s.Staller = never[0]
				s.StallAt = rapid.IntRange(0, 3).Draw(rt, "stallAt")
			}
		}
		desc := s.String()
		r := runC05(s, 20*time.Millisecond)
		if r.finding != nil {
			rec.Violation(rt, "C05/"+strings.TrimPrefix(r.finding.Key, "C02/"), r.finding.Detail+" || case: "+desc, map[string]any{"script": desc})
		}
		if !r.ok {
			if strings.HasPrefix(r.why, "harness:") {
				rt.Fatalf("%s || %s", r.why, desc)
			}
			// re-run once with a much longer quiescence window (the first run may have been starved of CPU): only a repeat counts
			r2 := runC05(s, 250*time.Millisecond)
			if !r2.ok && r2.finding == nil && !strings.HasPrefix(r2.why, "harness:") {
				rec.Violation(rt, "C05/not-live-after-heal", fmt.Sprintf("%s (second run: %s) || case: %s", r.why, r2.why, desc), map[string]any{"script": desc, "first": r.why, "second": r2.why})
			}
			rec.Inconclusive(desc)
			r = r2
		}
		rec.Max("max_fake_seconds_to_catch_up", r.usedFake.Seconds())
		if r.budget > 0 {
			rec.Max("max_fraction_of_budget_used", float64(r.usedFake)/float64(r.budget))
		}
		labels := []string{"scheme/" + cfg.Scheme, "backend/" + BackendNames[cfg.Backend], fmt.Sprintf("gap=%d", minU(r.gap, 6))}
		if len(r.restarted) > 0 {
			labels = append(labels, "restart-rejoin")
		}
		if s.Staller >= 0 {
			labels = append(labels, "silent-sync-peer")
		}
		rec.Case(desc, r.gap >= 2 || len(r.restarted) > 0, labels...)
	})
}

func minU(a, b uint64) uint64 {
	if a < b {
		return a
	}
	return b
}
