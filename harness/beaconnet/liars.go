package beaconnet

import (
	"context"
	"errors"
	"fmt"

	proto "github.com/drand/drand/v2/protobuf/drand"
	"github.com/drand/drand/v2/verifharness/fx"
)

// Lying / failing sync peers. Every lie is built from the true chain (which the harness can compute because it holds the
// group secret) so that it is wrong in exactly one way.
const (
	LieHonest     = iota // streams the true chain (a scripted honest peer that is arbitrarily far ahead)
	LieBadSig            // one beacon with a bit-flipped signature
	LieRelabel           // valid beacon of round r+1 labelled r
	LieSkip              // omits one round
	LieRepeat            // sends one round twice
	LieSwap              // two consecutive rounds in the wrong order
	LieWrongPrev         // (chained) group-signed beacon over a junk previous signature: models a colluding threshold
	LieForeignID         // metadata names another beacon id
	LieTruncated         // signature cut short
	LieOtherChain        // beacon validly signed by ANOTHER chain's key
	LieRefuse            // SyncChain returns an error
	LieSilent            // never sends anything
	LieStall             // sends `At` good beacons then stalls
	LieCloseEarly        // sends `At` good beacons then closes
	NLieKinds
)

var LieNames = []string{"honest-scripted", "bad-signature", "relabelled-round", "skipped-round", "repeated-round", "swapped-order", "valid-sig-wrong-prev",
	"foreign-beacon-id", "truncated-signature", "other-chain-key", "refuses", "silent", "stalls", "closes-early"}

// LieSpec scripts one peer.
type LieSpec struct {
	Kind int
	// At is the position (0-based, counted from the requested round) where the lie happens / the stream stops.
	At int
	// Have is the highest round this peer will serve (it is "ahead" up to there).
	Have uint64
	// Uses counts how often the script was used.
	Uses int
}

// TrueSig returns the true group signature of round r (and caches the chain).
func (n *Net) TrueSig(r uint64) []byte {
	n.tmu.Lock()
	defer n.tmu.Unlock()
	if n.truth == nil {
		n.truth = [][]byte{n.Fx.Group.GetGenesisSeed()}
	}
	for uint64(len(n.truth)) <= r {
		k := uint64(len(n.truth))
		var prev []byte
		if fx.Chained(n.Cfg.Scheme) {
			prev = n.truth[k-1]
		}
		n.truth = append(n.truth, n.Fx.Sign(k, prev))
	}
	return n.truth[r]
}

// TrueBeacon builds the honest packet for round r.
func (n *Net) TrueBeacon(r uint64) *proto.BeaconPacket {
	b := &proto.BeaconPacket{Round: r, Signature: n.TrueSig(r), Metadata: &proto.Metadata{BeaconID: n.Cfg.BeaconID}}
	if fx.Chained(n.Cfg.Scheme) && r > 0 {
		b.PreviousSignature = n.TrueSig(r - 1)
	}
	return b
}

// SetLiar scripts the peer at addr (nil removes the script).
func (n *Net) SetLiar(addr string, spec *LieSpec) {
	n.mu.Lock()
	if n.liars == nil {
		n.liars = map[string]*LieSpec{}
	}
	if spec == nil {
		delete(n.liars, addr)
	} else {
		n.liars[addr] = spec
	}
	n.mu.Unlock()
}

func (n *Net) liar(addr string) *LieSpec {
	n.mu.Lock()
	defer n.mu.Unlock()
	s := n.liars[addr]
	if s != nil {
		s.Uses++
	}
	return s
}

// lieStream produces the scripted stream for a request starting at `from`.
func (n *Net) lieStream(ctx context.Context, spec *LieSpec, from uint64, requester string) (chan *proto.BeaconPacket, error) {
	if spec.Kind == LieRefuse {
		return nil, errors.New("sync refused (scripted peer)")
	}
	if from > spec.Have && spec.Kind != LieSilent {
		return nil, fmt.Errorf("no beacon stored above requested round %d < %d (scripted peer)", spec.Have, from)
	}
	ch := make(chan *proto.BeaconPacket, 4)
	var seq []*proto.BeaconPacket
	for r := from; r <= spec.Have; r++ {
		seq = append(seq, n.TrueBeacon(r))
	}
	at := spec.At
	if at >= len(seq) {
		at = len(seq) - 1
	}
	stopAfter := -1 // -1: send everything then stay open until cancelled (live mode)
	closeAtEnd := false
	if len(seq) > 0 {
		switch spec.Kind {
		case LieBadSig:
			s := append([]byte(nil), seq[at].Signature...)
			s[len(s)/2] ^= 0x10
			seq[at].Signature = s
		case LieRelabel:
			nb := n.TrueBeacon(seq[at].Round + 1)
			nb.Round = seq[at].Round
			seq[at] = nb
		case LieSkip:
			seq = append(seq[:at], seq[at+1:]...)
		case LieRepeat:
			seq = append(seq[:at+1], append([]*proto.BeaconPacket{seq[at]}, seq[at+1:]...)...)
		case LieSwap:
			if at+1 < len(seq) {
				seq[at], seq[at+1] = seq[at+1], seq[at]
			} else if at > 0 {
				seq[at], seq[at-1] = seq[at-1], seq[at]
			}
		case LieWrongPrev:
			junk := fx.Bytes(n.Cfg.Seed, "liar-junk-prev", 96)
			r := seq[at].Round
			if fx.Chained(n.Cfg.Scheme) {
				seq[at] = &proto.BeaconPacket{Round: r, PreviousSignature: junk, Signature: n.Fx.Sign(r, junk), Metadata: seq[at].Metadata}
			} else {
				// unchained: previous signature is not part of the message; attach junk to a valid beacon (must be ignored / stripped)
				seq[at].PreviousSignature = junk
			}
		case LieForeignID:
			seq[at].Metadata = &proto.Metadata{BeaconID: n.Cfg.BeaconID + "-other"}
		case LieTruncated:
			seq[at].Signature = seq[at].Signature[:len(seq[at].Signature)/2]
		case LieOtherChain:
			other := fx.NewNet(n.Cfg.Seed^0x5bd1e995, fx.Opts{Scheme: n.Cfg.Scheme, N: n.Cfg.N, T: n.Cfg.T, Period: n.Cfg.Period, Catchup: n.Cfg.Catchup, Genesis: n.Fx.Group.GenesisTime, BeaconID: n.Cfg.BeaconID})
			seq[at].Signature = other.Sign(seq[at].Round, seq[at].PreviousSignature)
		case LieSilent:
			seq = nil
		case LieStall:
			seq = seq[:at]
		case LieCloseEarly:
			seq = seq[:at]
			closeAtEnd = true
		}
	}
	_ = stopAfter
	go func() {
		defer close(ch)
		for _, b := range seq {
			n.noteSyncDelivery(requester, b.GetRound())
			select {
			case <-ctx.Done():
				return
			case ch <- b:
				n.actions.Add(1)
			}
		}
		if closeAtEnd {
			return
		}
		<-ctx.Done()
	}()
	return ch, nil
}
