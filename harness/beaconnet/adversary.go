package beaconnet

import (
	"fmt"

	"github.com/drand/drand/v2/common"
	proto "github.com/drand/drand/v2/protobuf/drand"
	"github.com/drand/drand/v2/verifharness/fx"
	"github.com/drand/kyber/share"
)

// Partial kinds of the adversary catalogue. Each forged item is derived from a real signature so that it fails for one reason.
const (
	AdvValid         = iota // well-formed partial of member `signer` for (round, prev): counts
	AdvWrongShare           // member index, signed with a share of a foreign polynomial
	AdvOtherRound           // valid partial for round+1 relabelled as round
	AdvOtherPrev            // (chained) valid partial over a different previous signature, labelled with prev
	AdvJunkPrev             // valid partial for (round, junk prev): valid on its own, for a different chain position
	AdvNonMember            // share of the real polynomial at an index outside the group
	AdvReceiverIndex        // valid partial made with the receiver's own share
	AdvTruncated            // valid partial cut short
	AdvBitFlip              // valid partial with one bit flipped
	AdvEmpty                // empty signature
	AdvIndexOnly            // two index bytes only
	AdvFutureRound          // valid partial for a round beyond clock+1
	NAdvKinds
)

var AdvNames = []string{"valid", "wrong-share", "other-round", "other-prev", "junk-prev", "non-member-index", "receiver-index", "truncated", "bit-flip", "empty", "index-only", "future-round"}

func (n *Net) packet(round uint64, prev, sig []byte) *proto.PartialBeaconPacket {
	md := proto.NewMetadata(common.GetAppVersion().ToProto())
	md.BeaconID = common.GetCanonicalBeaconID(n.Cfg.BeaconID)
	return &proto.PartialBeaconPacket{Round: round, PreviousSignature: prev, PartialSig: sig, Metadata: md}
}

// signAt signs with the live polynomial evaluated at an arbitrary index.
func signAt(e *fx.Net, idx int, round uint64, prev []byte) []byte {
	if !fx.Chained(e.Scheme.Name) {
		prev = nil
	}
	sig, err := e.Scheme.ThresholdScheme.Sign(e.Poly.Eval(idx), e.Digest(round, prev))
	if err != nil {
		panic(err)
	}
	return sig
}

// Forge builds an adversarial partial of the given kind for receiver `to`, nominally from live-epoch position `signer`.
// prev is the previous signature the honest nodes would use for round (nil on unchained schemes).
func (n *Net) Forge(kind, signer, to int, round uint64, prev []byte, salt int) (*proto.PartialBeaconPacket, string) {
	e := n.Live
	chained := fx.Chained(n.Cfg.Scheme)
	// honest nodes put the previous signature in the packet on every scheme; only chained schemes sign it
	pktPrev := prev
	if !chained {
		prev = nil
	}
	idx := int(e.Indices[signer%e.N])
	valid := signAt(e, idx, round, prev)
	label := AdvNames[kind]
	switch kind {
	case AdvValid:
		return n.packet(round, pktPrev, valid), label
	case AdvWrongShare:
		foreign := share.NewPriPoly(e.Scheme.KeyGroup, e.T, nil, fx.Stream(n.Cfg.Seed, fmt.Sprintf("foreign%d", salt)))
		sig, _ := e.Scheme.ThresholdScheme.Sign(foreign.Eval(idx), e.Digest(round, prev))
		return n.packet(round, pktPrev, sig), label
	case AdvOtherRound:
		return n.packet(round, pktPrev, signAt(e, idx, round+1, prev)), label
	case AdvOtherPrev:
		other := fx.Bytes(n.Cfg.Seed, fmt.Sprintf("otherprev%d", salt), 96)
		if !chained {
			// unchained digests ignore prev: relabelling changes nothing cryptographically, so use another round instead
			return n.packet(round, pktPrev, signAt(e, idx, round+2, nil)), "other-round"
		}
		return n.packet(round, pktPrev, signAt(e, idx, round, other)), label
	case AdvJunkPrev:
		// valid on its own, but for a different chain position (chained) / a different cache slot (unchained)
		junk := fx.Bytes(n.Cfg.Seed, fmt.Sprintf("junkprev%d", salt), 8+salt%40)
		return n.packet(round, junk, signAt(e, idx, round, junk)), label
	case AdvNonMember:
		out := 1000 + salt%50
		return n.packet(round, pktPrev, signAt(e, out, round, prev)), label
	case AdvReceiverIndex:
		ridx := n.liveIndexOf(to)
		if ridx < 0 {
			ridx = idx
		}
		return n.packet(round, pktPrev, signAt(e, ridx, round, prev)), label
	case AdvTruncated:
		cut := 1 + salt%(len(valid)-1)
		return n.packet(round, pktPrev, valid[:cut]), label
	case AdvBitFlip:
		b := append([]byte(nil), valid...)
		pos := 2 + salt%(len(b)-2)
		b[pos] ^= 1 << (salt % 8)
		return n.packet(round, pktPrev, b), label
	case AdvEmpty:
		return n.packet(round, pktPrev, nil), label
	case AdvIndexOnly:
		return n.packet(round, pktPrev, valid[:2]), label
	case AdvFutureRound:
		fr := round + 2 + uint64(salt%8)
		return n.packet(fr, pktPrev, signAt(e, idx, fr, prev)), label
	}
	panic("unknown kind")
}

// liveIndexOf returns the live-epoch DKG index of node position pos, or -1.
func (n *Net) liveIndexOf(pos int) int {
	if pos < 0 || pos >= len(n.Nodes) {
		return -1
	}
	addr := n.Nodes[pos].Addr
	for i, p := range n.Live.Pairs {
		if p.Public.Addr == addr {
			return int(n.Live.Indices[i])
		}
	}
	return -1
}

// ValidPartialIndex independently verifies a partial for (round, prev) against the live public polynomial and group membership;
// it returns the signer index, or -1 if the partial is not a valid member partial for exactly that (round, prev).
func (n *Net) ValidPartialIndex(e *fx.Net, round uint64, prev, sig []byte) (out int) {
	if !fx.Chained(n.Cfg.Scheme) {
		prev = nil
	}
	ck := fmt.Sprintf("%p|%d|%x|%x", e, round, prev, sig)
	n.vmu.Lock()
	if v, ok := n.pcache[ck]; ok {
		n.vmu.Unlock()
		return v
	}
	n.vmu.Unlock()
	defer func() {
		n.vmu.Lock()
		if n.pcache == nil {
			n.pcache = map[string]int{}
		}
		n.pcache[ck] = out
		n.vmu.Unlock()
	}()
	idx, err := e.Scheme.ThresholdScheme.IndexOf(sig)
	if err != nil || idx < 0 {
		return -1
	}
	member := false
	for _, ix := range e.Indices {
		if int(ix) == idx {
			member = true
		}
	}
	if !member {
		return -1
	}
	if err := e.Scheme.ThresholdScheme.VerifyPartial(e.Pub, e.Digest(round, prev), sig); err != nil {
		return -1
	}
	return idx
}
