package beaconnet

import (
	"testing"
	"time"

	"github.com/drand/drand/v2/verifharness/fx"
)

func TestSmoke(t *testing.T) {
	for _, sch := range fx.SchemeNames {
		for back := 0; back < NBackends; back++ {
			t0 := time.Now()
			n, err := New(Config{Seed: 3, Scheme: sch, N: 4, T: 3, Backend: back, BeaconID: "smoke"})
			if err != nil {
				t.Fatal(err)
			}
			if err := n.StartAll(); err != nil {
				t.Fatal(err)
			}
			setup := time.Since(t0)
			n.Advance(nil, n.Cfg.GenesisIn)
			n.WaitHeads(nil, 1, 5*time.Second)
			for r := 0; r < 5; r++ {
				n.Advance(nil, n.Cfg.Period)
				n.WaitHeads(nil, uint64(r+2), 5*time.Second)
			}
			n.Settle()
			for _, nd := range n.Nodes {
				h, err := nd.Head()
				if err != nil || h != 6 {
					t.Fatalf("%s/%s node %d head %d err %v; fatals=%v", sch, BackendNames[back], nd.Pos, h, err, nd.Log.Root().FatalEvents())
				}
			}
			t.Logf("%s/%s: setup %v, 6 rounds total %v, tap=%d", sch, BackendNames[back], setup, time.Since(t0), len(n.Tap))
			n.Close()
		}
	}
}
