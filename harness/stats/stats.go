// Package stats is the evidence/violation recorder shared by every check.
//
// A test opens one Rec, calls Case for every generated case and Violation when
// an oracle fails. On cleanup the Rec writes $VERIF_STATS_DIR/<test>.json; the
// python driver merges those files into evidence/<id>.json. Nothing here feeds
// an oracle.
package stats

import (
	"encoding/json"
	"fmt"
	"hash/fnv"
	"os"
	"path/filepath"
	"sort"
	"strconv"
	"strings"
	"sync"
)

// maxListed is the largest distinct-hash set a shard writes out verbatim; beyond
// that only the count is written and the driver falls back to a lower bound.
const maxListed = 100000

// maxSet caps the in-memory set.
const maxSet = 4000000

type fataler interface {
	Helper()
	Fatalf(format string, args ...any)
}

type cleaner interface {
	Cleanup(func())
	Name() string
}

// Rec accumulates per-test statistics.
type Rec struct {
	mu           sync.Mutex
	Prop         string
	Test         string
	evaluations  int64
	nontrivial   int64
	distinct     map[uint64]struct{}
	saturated    bool
	classes      map[string]int64
	firstSamples []string
	resSamples   []string
	resSeen      int64
	inconclusive int64
	excluded     int64
	knownHits    map[string]string
	exhaustive   *bool
	extra        map[string]any
	known        map[string]string
	lcg          uint64
}

var (
	regMu sync.Mutex
	reg   = map[string]*Rec{}
)

// Open returns the recorder for (prop, test), creating it and registering the
// flush on first use.
func Open(tb cleaner, prop string) *Rec {
	regMu.Lock()
	defer regMu.Unlock()
	name := strings.ReplaceAll(tb.Name(), "/", "_")
	k := prop + "/" + name
	if r, ok := reg[k]; ok {
		return r
	}
	r := &Rec{Prop: prop, Test: name, distinct: map[uint64]struct{}{}, classes: map[string]int64{},
		knownHits: map[string]string{}, extra: map[string]any{}, known: loadKnown(prop), lcg: 88172645463325252}
	reg[k] = r
	tb.Cleanup(r.flush)
	return r
}

func loadKnown(prop string) map[string]string {
	out := map[string]string{}
	p := os.Getenv("VERIF_KNOWN")
	if p == "" {
		return out
	}
	b, err := os.ReadFile(p)
	if err != nil {
		return out
	}
	var doc struct {
		Findings []struct {
			Property string `json:"property"`
			Key      string `json:"key"`
			What     string `json:"what"`
			Status   string `json:"status"`
		} `json:"findings"`
	}
	if json.Unmarshal(b, &doc) != nil {
		return out
	}
	for _, f := range doc.Findings {
		if f.Property == prop && f.Status == "known" {
			out[f.Key] = f.What
		}
	}
	return out
}

func hash64(s string) uint64 {
	h := fnv.New64a()
	_, _ = h.Write([]byte(s))
	return h.Sum64()
}

// Case records one executed case. desc is a canonical descriptor; distinctness
// is measured on it. labels feed the class histogram.
func (r *Rec) Case(desc string, nontrivial bool, labels ...string) {
	r.mu.Lock()
	defer r.mu.Unlock()
	r.evaluations++
	for _, l := range labels {
		r.classes[l]++
	}
	if !nontrivial {
		r.classes["trivial"]++
		return
	}
	r.nontrivial++
	if len(r.distinct) < maxSet {
		r.distinct[hash64(desc)] = struct{}{}
	} else {
		r.saturated = true
	}
	if len(desc) > 600 {
		desc = desc[:600] + "…"
	}
	if len(r.firstSamples) < 4 {
		r.firstSamples = append(r.firstSamples, desc)
		return
	}
	// reservoir of 6 driven by a private LCG (presentation only; never feeds an oracle)
	r.resSeen++
	r.lcg = r.lcg*6364136223846793005 + 1442695040888963407
	if len(r.resSamples) < 6 {
		r.resSamples = append(r.resSamples, desc)
	} else if j := (r.lcg >> 33) % uint64(r.resSeen); j < 6 {
		r.resSamples[j] = desc
	}
}

// Label bumps a class counter without counting a case.
func (r *Rec) Label(l string) { r.LabelN(l, 1) }

// LabelN bumps a class counter by n.
func (r *Rec) LabelN(l string, n int64) {
	r.mu.Lock()
	r.classes[l] += n
	r.mu.Unlock()
}

// Max keeps the maximum of a named measurement in the evidence extras.
func (r *Rec) Max(name string, v float64) {
	r.mu.Lock()
	if old, ok := r.extra[name].(float64); !ok || v > old {
		r.extra[name] = v
	}
	r.mu.Unlock()
}

// Set stores an extra evidence key.
func (r *Rec) Set(name string, v any) {
	r.mu.Lock()
	r.extra[name] = v
	r.mu.Unlock()
}

// Exhaustive marks that this test enumerated its (finite) space completely.
func (r *Rec) Exhaustive(v bool) {
	r.mu.Lock()
	r.exhaustive = &v
	r.mu.Unlock()
}

// Inconclusive counts a case whose liveness budget was hit once and not on re-run.
func (r *Rec) Inconclusive(desc string) {
	r.mu.Lock()
	r.inconclusive++
	r.mu.Unlock()
}

// Excluded counts a case steered away from a listed known finding.
func (r *Rec) Excluded() {
	r.mu.Lock()
	r.excluded++
	r.mu.Unlock()
}

// IsKnown reports whether key is a listed (unrepaired) known finding for this
// property; if so the hit is recorded so the driver prints the KNOWN-FINDING line.
func (r *Rec) IsKnown(key string) bool {
	r.mu.Lock()
	defer r.mu.Unlock()
	what, ok := r.known[key]
	if ok {
		r.knownHits[key] = what
	}
	return ok
}

// KnownListed reports whether key is listed without recording a hit.
func (r *Rec) KnownListed(key string) bool {
	r.mu.Lock()
	defer r.mu.Unlock()
	_, ok := r.known[key]
	return ok
}

// ViolationRecord is what a failing oracle leaves for the driver.
type ViolationRecord struct {
	Property string `json:"property"`
	Test     string `json:"test"`
	Key      string `json:"key"`
	Detail   string `json:"detail"`
	Artefact any    `json:"artefact,omitempty"`
}

// Violation writes the violation record (last write wins, i.e. rapid's final
// replay of the shrunk case) and fails the test. If key is a listed known
// finding it only records the hit and returns false without failing.
func (r *Rec) Violation(t fataler, key, detail string, artefact any) bool {
	t.Helper()
	if r.IsKnown(key) {
		return false
	}
	r.WriteViolation(key, detail, artefact)
	t.Fatalf("VIOLATION %s key=%s: %s", r.Prop, key, detail)
	return true
}

// WriteViolation only writes the record (for goroutines that cannot call Fatalf).
func (r *Rec) WriteViolation(key, detail string, artefact any) {
	dir := os.Getenv("VERIF_STATS_DIR")
	if dir == "" {
		return
	}
	rec := ViolationRecord{Property: r.Prop, Test: r.Test, Key: key, Detail: detail, Artefact: artefact}
	b, err := json.MarshalIndent(rec, "", " ")
	if err != nil {
		rec.Artefact = fmt.Sprintf("%v", artefact)
		b, _ = json.MarshalIndent(rec, "", " ")
	}
	_ = os.WriteFile(filepath.Join(dir, "violation-"+r.Prop+"-"+r.Test+".json"), b, 0o644)
}

func (r *Rec) flush() {
	dir := os.Getenv("VERIF_STATS_DIR")
	if dir == "" {
		return
	}
	r.mu.Lock()
	defer r.mu.Unlock()
	out := map[string]any{
		"property":     r.Prop,
		"test":         r.Test,
		"evaluations":  r.evaluations,
		"nontrivial":   r.nontrivial,
		"distinct":     len(r.distinct),
		"saturated":    r.saturated,
		"classes":      r.classes,
		"samples":      append(append([]string{}, r.firstSamples...), r.resSamples...),
		"inconclusive": r.inconclusive,
		"excluded":     r.excluded,
		"known_hits":   r.knownHits,
		"extra":        r.extra,
	}
	if r.exhaustive != nil {
		out["exhaustive"] = *r.exhaustive
	}
	if len(r.distinct) <= maxListed {
		hs := make([]string, 0, len(r.distinct))
		for h := range r.distinct {
			hs = append(hs, strconv.FormatUint(h, 36))
		}
		sort.Strings(hs)
		out["hashes"] = hs
	}
	b, _ := json.Marshal(out)
	_ = os.WriteFile(filepath.Join(dir, "stats-"+r.Prop+"-"+r.Test+".json"), b, 0o644)
}

// Seed returns the per-shard seed handed down by the driver (never 0).
func Seed() uint64 {
	v, err := strconv.ParseUint(os.Getenv("VERIF_SHARD_SEED"), 10, 64)
	if err != nil || v == 0 {
		return 1
	}
	return v
}

// Shard returns the shard index.
func Shard() int {
	v, _ := strconv.Atoi(os.Getenv("VERIF_SHARD"))
	return v
}

// Thorough reports the tier.
func Thorough() bool { return os.Getenv("VERIF_TIER") == "thorough" }

// N returns an integer knob from the environment (set by the driver per job).
func N(name string, def int) int {
	v, err := strconv.Atoi(os.Getenv(name))
	if err != nil {
		return def
	}
	return v
}
