package core

import (
	"context"
	"fmt"
	"io/fs"
	"os"
	"path/filepath"
	"strings"
	"syscall"
	"testing"
	"time"

	"google.golang.org/protobuf/proto"
	"pgregory.net/rapid"

	"github.com/drand/drand/v2/internal/chain"
	"github.com/drand/drand/v2/internal/dkg"
	fx "github.com/drand/drand/v2/internal/veriffx"
	verifsecretscan "github.com/drand/drand/v2/internal/verifsecretscan"
	stats "github.com/drand/drand/v2/internal/verifstats"
	pdkg "github.com/drand/drand/v2/protobuf/dkg"
	"github.com/drand/drand/v2/protobuf/drand"
)

// TestVerifC15Daemon: answers of every endpoint, HTTP bodies, log lines and the permissions of secret-bearing files of a real daemon.
func TestVerifC15Daemon(t *testing.T) {
	rec := stats.Open(t, "C15")
	rapid.Check(t, func(rt *rapid.T) {
		seed := rapid.Uint64Range(1, 1<<32).Draw(rt, "keyseed")
		umask := rapid.SampledFrom([]int{0, 0o022}).Draw(rt, "umask")
		old := syscall.Umask(umask)
		defer syscall.Umask(old)
		storage := chain.BoltDB
		if rapid.Bool().Draw(rt, "memdb") {
			storage = chain.MemDB
		}
		specs := []vChainSpec{{ID: "default", Scheme: rapid.SampledFrom(fx.SchemeNames).Draw(rt, "scheme0"), Grouped: true}, {ID: "a", Scheme: rapid.SampledFrom(fx.SchemeNames).Draw(rt, "scheme1"), Grouped: true}}
		v, err := newVDaemon(t, seed, specs, storage, true)
		if err != nil {
			rt.Fatalf("daemon: %v", err)
		}
		defer v.close()
		for i := 0; i < 3; i++ {
			v.tick("default", "a")
		}
		desc := fmt.Sprintf("schemes=%s,%s storage=%s umask=%o seed=%d", specs[0].Scheme, specs[1].Scheme, storage, umask, seed)
		fail := func(key, detail string) {
			rec.Violation(rt, key, detail+" || case: "+desc, map[string]any{"case": desc})
		}
		var secrets []*verifsecretscan.Secret
		for _, id := range v.order {
			c := v.chains[id]
			kb, _ := c.Net.Pairs[0].Key.MarshalBinary()
			secrets = append(secrets, verifsecretscan.New("long-term private key of chain "+id, kb, c.Net.Pairs[0].Key.String()))
			sb, _ := c.Net.Shares[0].Share.V.MarshalBinary()
			secrets = append(secrets, verifsecretscan.New("key share of chain "+id, sb, c.Net.Shares[0].Share.V.String()))
		}
		scanned := 0
		kinds := map[string]int{}
		scan := func(kind string, what string, data []byte) {
			scanned++
			kinds[kind]++
			if who := verifsecretscan.Find(data, secrets); who != "" {
				fail("C15/secret-in-"+kind, fmt.Sprintf("%s contains the %s", what, who))
			}
		}
		scanMsg := func(what string, m proto.Message, err error) {
			if err != nil || m == nil {
				scan("response", what+" (error text)", []byte(fmt.Sprint(err)))
				return
			}
			b, _ := proto.Marshal(m)
			scan("response", what, b)
		}
		ctx, cancel := context.WithTimeout(context.Background(), 10*time.Second)
		defer cancel()
		for _, id := range v.order {
			md := func() *drand.Metadata { return &drand.Metadata{BeaconID: id} }
			r1, e1 := v.dd.PublicRand(ctx, &drand.PublicRandRequest{Round: 1, Metadata: md()})
			scanMsg("PublicRand("+id+")", r1, e1)
			r2, e2 := v.dd.ChainInfo(ctx, &drand.ChainInfoRequest{Metadata: md()})
			scanMsg("ChainInfo("+id+")", r2, e2)
			r3, e3 := v.dd.GetIdentity(ctx, &drand.IdentityRequest{Metadata: md()})
			scanMsg("GetIdentity("+id+")", r3, e3)
			r4, e4 := v.dd.PublicKey(ctx, &drand.PublicKeyRequest{Metadata: md()})
			scanMsg("PublicKey("+id+")", r4, e4)
			r5, e5 := v.dd.GroupFile(ctx, &drand.GroupRequest{Metadata: md()})
			scanMsg("GroupFile("+id+")", r5, e5)
			r6, e6 := v.dd.Status(ctx, &drand.StatusRequest{Metadata: md()})
			scanMsg("Status("+id+")", r6, e6)
			r7, e7 := v.dd.DKGStatus(ctx, &pdkg.DKGStatusRequest{BeaconID: id})
			scanMsg("DKGStatus("+id+")", r7, e7)
			r8, e8 := v.dd.ListBeaconIDs(ctx, &drand.ListBeaconIDsRequest{})
			scanMsg("ListBeaconIDs", r8, e8)
			sctx, scancel := context.WithTimeout(ctx, 2*time.Second)
			fs1 := &firstItemStream{ctx: sctx, cancel: scancel}
			_ = v.dd.SyncChain(&drand.SyncRequest{FromRound: 1, Metadata: md()}, syncStream{fs1})
			scancel()
			scanMsg("SyncChain("+id+")", fs1.beacon, nil)
			if storage == chain.BoltDB {
				out := filepath.Join(v.dir, "backup-"+id+".db")
				_, eb := v.dd.BackupDatabase(ctx, &drand.BackupDBRequest{OutputFile: out, Metadata: md()})
				if eb == nil {
					if data, err := os.ReadFile(out); err == nil {
						scan("backup", "the database backup of chain "+id, data)
					}
				}
			}
			c := v.chains[id]
			for _, route := range []string{"/info", "/public/latest", "/public/1", "/health"} {
				_, body := v.httpGet("/"+c.HashHex+route, 3*time.Second)
				scan("http-body", "HTTP "+route+" of chain "+id, []byte(body))
			}
		}
		_, body := v.httpGet("/chains", 3*time.Second)
		scan("http-body", "HTTP /chains", []byte(body))
		for _, line := range v.log.Root().Lines() {
			scan("log", "a log line ("+trunc(line, 120)+")", []byte(line))
		}
		// files: every file in which a secret is found must be readable by its owner only; the scanner must find the secrets in the
		// key file, the share file and the DKG database (positive control)
		found := map[string]bool{}
		_ = filepath.WalkDir(v.dir, func(p string, d fs.DirEntry, err error) error {
			if err != nil || d.IsDir() {
				return nil
			}
			data, rerr := os.ReadFile(p)
			if rerr != nil {
				return nil
			}
			who := verifsecretscan.Find(data, secrets)
			if who == "" {
				return nil
			}
			rel := strings.TrimPrefix(p, v.dir)
			found[filepath.Base(p)] = true
			kinds["secret-bearing-file"]++
			if strings.HasPrefix(filepath.Base(p), "backup-") {
				return nil
			}
			info, _ := d.Info()
			if info.Mode().Perm()&0o077 != 0 {
				fail("C15/secret-file-readable-by-others", fmt.Sprintf("%s holds the %s and has mode %04o (umask %03o)", rel, who, info.Mode().Perm(), umask))
			}
			return nil
		})
		for _, name := range []string{"drand_id.private", "dist_key.private", "dkg.db"} {
			if !found[name] {
				rt.Fatalf("harness: positive control failed: no secret found in %s (found in %v)", name, found)
			}
		}
		rec.LabelN("artefacts-scanned", int64(scanned))
		for k, n := range kinds {
			rec.LabelN("scanned/"+k, int64(n))
		}
		rec.Case(desc, true, "daemon", fmt.Sprintf("umask=%o", umask))
	})
}


// TestVerifC15FaultLogs: the error paths of a key generation. Three real daemons run a DKG (and optionally a resharing) while
// on one of them a persistence fault is planted: the path of the share file, or of the group file, is occupied by a directory,
// so that storing the DKG output fails on that node (the sandbox runs as root: permission bits cannot provoke the failure).
// Every log line of every node (debug level), the error texts of the operator commands and the DKG status answers are scanned
// for the long-term scalars and for the key shares recorded in each node's dkg.db.
func TestVerifC15FaultLogs(t *testing.T) {
	rec := stats.Open(t, "C15")
	faultCase := 0
	rapid.Check(t, func(rt *rapid.T) {
		seed := rapid.Uint64Range(1, 1<<32).Draw(rt, "keyseed")
		scheme := rapid.SampledFrom(fx.SchemeNames).Draw(rt, "scheme")
		fault := rapid.SampledFrom([]string{"share-path-is-a-directory", "group-path-is-a-directory", "share-file-preexists-world-readable", "share-file-preexists-world-readable", "none"}).Draw(rt, "fault")
		stage := rapid.SampledFrom([]string{"first-dkg", "resharing"}).Draw(rt, "stage")
		if faultCase == 0 {
			// the first case of shard k uses fault kind k (both stages over the shards): every run covers every kind
			kinds := []string{"share-file-preexists-world-readable", "share-path-is-a-directory", "group-path-is-a-directory", "share-file-preexists-world-readable", "none", "share-path-is-a-directory"}
			fault = kinds[stats.Shard()%len(kinds)]
			stage = []string{"resharing", "first-dkg"}[(stats.Shard()/3)%2]
		}
		faultCase++
		victim := rapid.IntRange(0, 2).Draw(rt, "victim")
		desc := fmt.Sprintf("faultlogs %s fault=%s at %s on node %d seed=%d", scheme, fault, stage, victim, seed)
		wd := time.AfterFunc(8*time.Minute, func() {
			fmt.Fprintf(os.Stderr, "HARNESS-ABORT: C15 fault case still running after 8 minutes (%s)\n", desc)
			os.Exit(3)
		})
		defer wd.Stop()
		cClusterKeepLogs = true
		c, err := newCCluster(3, seed, scheme)
		cClusterKeepLogs = false
		if err != nil {
			rt.Fatalf("harness: cluster: %v", err)
		}
		defer c.close()
		fail := func(key, detail string) {
			rec.Violation(rt, key, detail+" || case: "+desc, map[string]any{"case": desc})
		}
		plant := func() {
			if fault == "none" {
				return
			}
			dir := filepath.Join(c.nodes[victim].dir, "multibeacon", "default", "groups")
			name := "dist_key.private"
			if fault == "group-path-is-a-directory" {
				name = "drand_group.toml"
			}
			_ = os.MkdirAll(dir, 0o700)
			if fault == "share-file-preexists-world-readable" {
				// a node folder restored by a tool that drops file modes: the share file is there already, readable by everybody;
				// the share of the next epoch is written into it
				path := filepath.Join(dir, name)
				old, _ := os.ReadFile(path)
				_ = os.Remove(path)
				if err := os.WriteFile(path, old, 0o644); err != nil {
					rt.Fatalf("harness: cannot plant the fault: %v", err)
				}
				_ = os.Chmod(path, 0o644)
				return
			}
			_ = os.Remove(filepath.Join(dir, name))
			if err := os.Mkdir(filepath.Join(dir, name), 0o700); err != nil {
				rt.Fatalf("harness: cannot plant the fault: %v", err)
			}
		}
		var cmdErrs []string
		note := func(err error) {
			if err != nil {
				cmdErrs = append(cmdErrs, err.Error())
			}
		}
		if stage == "first-dkg" {
			plant()
		}
		note(c.firstDKG(2))
		if stage == "resharing" {
			c.rounds(2)
			plant()
			note(c.reshare(2))
		}
		time.Sleep(300 * time.Millisecond) // let the beacon side of the completion (and its error logging) happen
		c.rounds(c.headOf(c.nodes[(victim+1)%3]) + 1)
		// secrets: long-term scalars and every share any dkg.db records
		var secrets []*verifsecretscan.Secret
		shares := 0
		for i, nd := range c.nodes {
			kb, _ := nd.pair.Key.MarshalBinary()
			secrets = append(secrets, verifsecretscan.New(fmt.Sprintf("long-term private key of node %d", i), kb, nd.pair.Key.String()))
			st, err := nd.dd.DKGStatus(context.Background(), &pdkg.DKGStatusRequest{BeaconID: "default"})
			if err == nil {
				b, _ := proto.Marshal(st)
				defer func(i int, b []byte) {
					if who := verifsecretscan.Find(b, secrets); who != "" {
						fail("C15/secret-in-response", fmt.Sprintf("the DKG status answer of node %d contains the %s", i, who))
					}
				}(i, b)
			}
		}
		for i, nd := range c.nodes {
			data, err := os.ReadFile(filepath.Join(nd.dir, "dkg.db"))
			if err != nil {
				continue
			}
			_ = data
			store, err := dkgNewStoreForScan(nd.dir)
			if err != nil {
				continue
			}
			for _, sh := range store {
				secrets = append(secrets, verifsecretscan.New(fmt.Sprintf("key share of node %d", i), sh.raw, sh.str))
				shares++
			}
		}
		if shares == 0 {
			rt.Fatalf("harness: no share found in any dkg.db (the key generation did not complete): %s / command errors %v", desc, cmdErrs)
		}
		scanned, faultLogged := 0, false
		for i, nd := range c.nodes {
			for _, line := range nd.log.Root().Lines() {
				scanned++
				if i == victim && (strings.Contains(line, "is a directory") || strings.Contains(line, "can't save")) {
					faultLogged = true
				}
				if who := verifsecretscan.Find([]byte(line), secrets); who != "" {
					fail("C15/secret-in-log", fmt.Sprintf("a log line of node %d contains the %s: %s", i, who, trunc(line, 400)))
				}
			}
		}
		for _, e := range cmdErrs {
			scanned++
			if who := verifsecretscan.Find([]byte(e), secrets); who != "" {
				fail("C15/secret-in-response", fmt.Sprintf("the error text of an operator command contains the %s: %s", who, trunc(e, 400)))
			}
		}
		// every file of every node that holds one of the secrets is readable by its owner only
		for i, nd := range c.nodes {
			_ = filepath.Walk(nd.dir, func(path string, info os.FileInfo, err error) error {
				if err != nil || info.IsDir() || info.Size() > 8<<20 {
					return nil
				}
				data, rerr := os.ReadFile(path)
				if rerr != nil {
					return nil
				}
				scanned++
				if who := verifsecretscan.Find(data, secrets); who != "" && info.Mode().Perm()&0o077 != 0 {
					fail("C15/secret-file-readable-by-others", fmt.Sprintf("%s of node %d holds the %s and has mode %04o", strings.TrimPrefix(path, nd.dir), i, who, info.Mode().Perm()))
				}
				return nil
			})
		}
		rec.LabelN("artefacts-scanned", int64(scanned))
		labels := []string{"fault-logs", "fault/" + fault, "stage/" + stage, fmt.Sprintf("fault-surfaced-in-log=%v", faultLogged)}
		rec.Case(desc, fault != "none", labels...)
	})
}

type scanShare struct {
	raw []byte
	str string
}

// dkgNewStoreForScan reads the shares recorded in a node's dkg.db through a copy of the file (the daemon holds the lock on the original).
func dkgNewStoreForScan(nodeDir string) ([]scanShare, error) {
	tmp, err := os.MkdirTemp(scratchBase(), "c15db")
	if err != nil {
		return nil, err
	}
	defer os.RemoveAll(tmp)
	data, err := os.ReadFile(filepath.Join(nodeDir, "dkg.db"))
	if err != nil {
		return nil, err
	}
	if err := os.WriteFile(filepath.Join(tmp, "dkg.db"), data, 0o600); err != nil {
		return nil, err
	}
	st, err := dkg.NewDKGStore(tmp)
	if err != nil {
		return nil, err
	}
	defer st.Close()
	var out []scanShare
	for _, get := range []func(string) (*dkg.DBState, error){st.GetFinished, st.GetCurrent} {
		s, err := get("default")
		if err != nil || s == nil || s.KeyShare == nil {
			continue
		}
		raw, _ := s.KeyShare.Share.V.MarshalBinary()
		out = append(out, scanShare{raw, s.KeyShare.Share.V.String()})
	}
	return out, nil
}
