package core

import (
	"github.com/drand/drand/v2/protobuf/drand"
	"strconv"
	"runtime"
	"bytes"
	"context"
	"errors"
	"fmt"
	"os"
	"path/filepath"
	"strings"
	"sync"
	"sync/atomic"
	"testing"
	"time"

	clock "github.com/jonboulle/clockwork"
	"google.golang.org/grpc"
	"google.golang.org/protobuf/types/known/timestamppb"
	"pgregory.net/rapid"

	"github.com/drand/drand/v2/common"
	chain2 "github.com/drand/drand/v2/common/chain"
	"github.com/drand/drand/v2/common/key"
	"github.com/drand/drand/v2/common/verifhook"
	"github.com/drand/drand/v2/internal/chain"
	chainerrors "github.com/drand/drand/v2/internal/chain/errors"
	"github.com/drand/drand/v2/internal/dkg"
	"github.com/drand/drand/v2/internal/test"
	"github.com/drand/drand/v2/internal/util"
	fx "github.com/drand/drand/v2/internal/veriffx"
	hlog "github.com/drand/drand/v2/internal/verifhlog"
	stats "github.com/drand/drand/v2/internal/verifstats"
	pdkg "github.com/drand/drand/v2/protobuf/dkg"
)

// cNode is one real daemon of the C13 cluster (fresh install: key pair only; group and share come from a real DKG).
type cNode struct {
	dd   *DrandDaemon
	dir  string
	addr string
	pair *key.Pair
	part *pdkg.Participant
	log  *hlog.Logger
}

type cCluster struct {
	extraTick time.Duration // added to the real-time wait per clock step when persistence operations are stalled on purpose
	nodes  []*cNode
	clock  *clock.FakeClock
	period time.Duration
	scheme string
}

// cClusterLateLoad lists the nodes of the next cluster whose beacon is loaded over the control API after the daemon started.
var cClusterLateLoad = map[int]bool{}

// cClusterKeepLogs makes the daemons of the next cluster keep their log lines (C15 scans them).
var cClusterKeepLogs bool

func newCCluster(n int, seed uint64, scheme string) (*cCluster, error) {
	c := &cCluster{clock: clock.NewFakeClockAt(time.Now().Truncate(time.Second)), period: 2 * time.Second, scheme: scheme}
	sch := fx.Scheme(scheme)
	for i := 0; i < n; i++ {
		dir, err := os.MkdirTemp(scratchBase(), "c13node")
		if err != nil {
			return nil, err
		}
		addr := test.FreeBind("127.0.0.1")
		nd := &cNode{dir: dir, addr: addr, log: hlog.New(cClusterKeepLogs)}
		nd.pair = fx.Pair(seed, fmt.Sprintf("c13-%d", i), addr, sch)
		nd.part, _ = util.PublicKeyAsParticipant(nd.pair.Public)
		conf := NewConfig(nd.log, WithConfigFolder(dir), WithPrivateListenAddress(addr), WithControlPort(test.FreePort()), WithDBStorageEngine(chain.BoltDB),
			WithDkgKickoffGracePeriod(300*time.Millisecond), WithDkgPhaseTimeout(4*time.Second), WithCallOption(grpc.WaitForReady(true)))
		conf.clock = c.clock
		if !cClusterLateLoad[i] {
			ks := key.NewFileStore(conf.ConfigFolderMB(), "default")
			if err := ks.SaveKeyPair(nd.pair); err != nil {
				return nil, err
			}
		} else {
			_ = os.MkdirAll(conf.ConfigFolderMB(), 0o700) // a daemon that hosts no beacon yet
		}
		dd, err := NewDrandDaemon(context.Background(), conf)
		if err != nil {
			return nil, err
		}
		nd.dd = dd
		// (a daemon that hosts no beacon yet is started the way `drand start --beacon-id ""` does)
		if err := dd.LoadBeaconsFromDisk(context.Background(), "", cClusterLateLoad[i], ""); err != nil {
			return nil, err
		}
		if cClusterLateLoad[i] {
			// the operator creates the key pair later and loads the beacon into the running daemon over the control port: the
			// context of that request ends with the call
			ks := key.NewFileStore(conf.ConfigFolderMB(), "default")
			if err := ks.SaveKeyPair(nd.pair); err != nil {
				return nil, err
			}
			rctx, rcancel := context.WithCancel(context.Background())
			_, lerr := dd.LoadBeacon(rctx, &drand.LoadBeaconRequest{Metadata: &drand.Metadata{BeaconID: "default"}})
			rcancel()
			if lerr != nil {
				return nil, fmt.Errorf("load beacon over the control API: %w", lerr)
			}
		}
		c.nodes = append(c.nodes, nd)
	}
	return c, nil
}

func (c *cCluster) close() {
	for _, nd := range c.nodes {
		nd := nd
		done := make(chan struct{})
		go func() {
			ctx, cancel := context.WithTimeout(context.Background(), 5*time.Second)
			defer cancel()
			nd.dd.Stop(ctx)
			close(done)
		}()
		select {
		case <-done:
		case <-time.After(8 * time.Second):
		}
		_ = os.RemoveAll(nd.dir)
	}
}

func cmd(id string) *pdkg.CommandMetadata { return &pdkg.CommandMetadata{BeaconID: id} }

func (c *cCluster) waitEpoch(epoch uint32, max time.Duration) error {
	deadline := time.Now().Add(max)
	for {
		ok := true
		for _, nd := range c.nodes {
			st, err := nd.dd.DKGStatus(context.Background(), &pdkg.DKGStatusRequest{BeaconID: "default"})
			if err != nil || st.Complete == nil || st.Complete.Epoch != epoch {
				ok = false
			}
		}
		if ok {
			return nil
		}
		if time.Now().After(deadline) {
			return fmt.Errorf("epoch %d did not complete on all nodes", epoch)
		}
		time.Sleep(20 * time.Millisecond)
	}
}

func (c *cCluster) parts() []*pdkg.Participant {
	var out []*pdkg.Participant
	for _, nd := range c.nodes {
		out = append(out, nd.part)
	}
	return out
}

func (c *cCluster) firstDKG(thr int) error {
	ctx := context.Background()
	genesis := c.clock.Now().Add(6 * time.Second)
	if _, err := c.nodes[0].dd.Command(ctx, &pdkg.DKGCommand{Metadata: cmd("default"), Command: &pdkg.DKGCommand_Initial{Initial: &pdkg.FirstProposalOptions{
		Timeout: timestamppb.New(time.Now().Add(2 * time.Minute)), Threshold: uint32(thr), PeriodSeconds: uint32(c.period.Seconds()), Scheme: c.scheme, CatchupPeriodSeconds: 1,
		GenesisTime: timestamppb.New(genesis), Joining: c.parts()}}}); err != nil {
		return fmt.Errorf("initial: %w", err)
	}
	for _, nd := range c.nodes[1:] {
		if _, err := nd.dd.Command(ctx, &pdkg.DKGCommand{Metadata: cmd("default"), Command: &pdkg.DKGCommand_Join{Join: &pdkg.JoinOptions{}}}); err != nil {
			return fmt.Errorf("join: %w", err)
		}
	}
	if _, err := c.nodes[0].dd.Command(ctx, &pdkg.DKGCommand{Metadata: cmd("default"), Command: &pdkg.DKGCommand_Execute{Execute: &pdkg.ExecutionOptions{}}}); err != nil {
		return fmt.Errorf("execute: %w", err)
	}
	return c.waitEpoch(1, 60*time.Second)
}

func (c *cCluster) reshare(thr int) error {
	ctx := context.Background()
	if _, err := c.nodes[0].dd.Command(ctx, &pdkg.DKGCommand{Metadata: cmd("default"), Command: &pdkg.DKGCommand_Resharing{Resharing: &pdkg.ProposalOptions{
		Timeout: timestamppb.New(time.Now().Add(2 * time.Minute)), Threshold: uint32(thr), CatchupPeriodSeconds: 1, Remaining: c.parts()}}}); err != nil {
		return fmt.Errorf("resharing: %w", err)
	}
	for _, nd := range c.nodes[1:] {
		if _, err := nd.dd.Command(ctx, &pdkg.DKGCommand{Metadata: cmd("default"), Command: &pdkg.DKGCommand_Accept{Accept: &pdkg.AcceptOptions{}}}); err != nil {
			return fmt.Errorf("accept: %w", err)
		}
	}
	if _, err := c.nodes[0].dd.Command(ctx, &pdkg.DKGCommand{Metadata: cmd("default"), Command: &pdkg.DKGCommand_Execute{Execute: &pdkg.ExecutionOptions{}}}); err != nil {
		return fmt.Errorf("execute: %w", err)
	}
	return c.waitEpoch(2, 60*time.Second)
}

func (c *cCluster) headOf(nd *cNode) uint64 {
	nd.dd.state.RLock()
	bp := nd.dd.beaconProcesses["default"]
	nd.dd.state.RUnlock()
	if bp == nil {
		return 0
	}
	bp.state.RLock()
	b := bp.beacon
	bp.state.RUnlock()
	if b == nil {
		return 0
	}
	last, err := b.Store().Last(context.Background())
	if err != nil {
		return 0
	}
	return last.Round
}

// rounds advances the shared clock period by period until every node stored `upTo` (or gives up).
func (c *cCluster) rounds(upTo uint64) bool {
	for i := 0; i < int(upTo)*3+20; i++ {
		done := true
		for _, nd := range c.nodes {
			if c.headOf(nd) < upTo {
				done = false
			}
		}
		if done {
			return true
		}
		c.clock.Advance(time.Second)
		time.Sleep(40*time.Millisecond + c.extraTick)
	}
	// a busy machine: the daemons only need processor time (and clock steps for their catch-up); be patient before giving up
	deadline := time.Now().Add(40 * time.Second)
	for time.Now().Before(deadline) {
		done := true
		for _, nd := range c.nodes {
			if c.headOf(nd) < upTo {
				done = false
			}
		}
		if done {
			return true
		}
		c.clock.Advance(time.Second)
		time.Sleep(500 * time.Millisecond)
	}
	return false
}

// crashImage is a copy of the node-under-test's folder taken at a persistence point.
type crashImage struct {
	idx      int
	point    string
	target   string
	dir      string
	served   uint64 // highest round the node had served (stored) before the snapshot
	dbEpoch  uint32 // highest epoch whose SaveFinished had ENDED on this node before the snapshot
	window   string // label of the crash window: the last completed step
	copyErr  error  // the folder could not be copied completely: not an image, not examined
	keyWin   string // which part of the three-step epoch completion (dkg.db, group file, share file) is done at this image
	clockNow time.Time
}

func copyTree(src, dst string) error {
	return filepath.Walk(src, func(p string, info os.FileInfo, err error) error {
		if err != nil {
			if os.IsNotExist(err) {
				return nil
			}
			return err // e.g. too many open files on a busy machine: the copy is not an image of the folder
		}
		rel, _ := filepath.Rel(src, p)
		out := filepath.Join(dst, rel)
		if info.IsDir() {
			return os.MkdirAll(out, 0o755)
		}
		data, rerr := os.ReadFile(p)
		if rerr != nil {
			if os.IsNotExist(rerr) {
				return nil
			}
			return rerr
		}
		return os.WriteFile(out, data, info.Mode().Perm())
	})
}

func targetKind(target string) string {
	b := filepath.Base(target)
	switch {
	case strings.HasSuffix(b, "drand_group.toml"):
		return "group-file"
	case strings.HasSuffix(b, "dist_key.private"):
		return "share-file"
	case b == "dkg.db":
		return "dkg.db"
	case b == "drand.db":
		return "chain-db"
	}
	return b
}

// TestVerifC13CrashPoints: scripted run (first DKG, rounds, resharing, rounds) of three real daemons; at every persistence
// point of the node under test its folder is copied (crash image); afterwards every image is restarted and examined.
func TestVerifC13CrashPoints(t *testing.T) {
	rec := stats.Open(t, "C13")
	caseNo := 0
	rapid.Check(t, func(rt *rapid.T) {
		seed := rapid.Uint64Range(1, 1<<32).Draw(rt, "keyseed")
		scheme := rapid.SampledFrom(fx.SchemeNames).Draw(rt, "scheme")
		nutIdx := rapid.IntRange(0, 2).Draw(rt, "nodeUnderTest") // 0 = leader
		withReshare := rapid.IntRange(0, 2).Draw(rt, "withReshare") > 0
		thr := rapid.IntRange(2, 3).Draw(rt, "t")
		stallKinds := []string{"none", "dkg.SaveFinished", "key.Save", "dkg.save", "chain.Put", "dkg.SaveFinished"}
		stallKind := rapid.SampledFrom(stallKinds).Draw(rt, "stall")
		if caseNo == 0 {
			stallKind = stallKinds[stats.Shard()%len(stallKinds)] // the first case of shard k uses kind k: every run covers every kind
		}
		caseNo++
		if stats.Shard() <= 1 || stallKind == "dkg.SaveFinished" {
			withReshare = true // every run covers the resharing windows (so that each listed finding is re-confirmed)
		}
		stallFor := time.Duration(rapid.SampledFrom([]int{60, 250}).Draw(rt, "stallMs")) * time.Millisecond
		desc := fmt.Sprintf("%s nut=%d(leader=%v) t=%d reshare=%v stall=%s/%v seed=%d", scheme, nutIdx, nutIdx == 0, thr, withReshare, stallKind, stallFor, seed)
		wd := time.AfterFunc(10*time.Minute, func() {
			fmt.Fprintf(os.Stderr, "HARNESS-ABORT: C13 case still running after 10 minutes (%s)\n", desc)
			os.Exit(3)
		})
		defer wd.Stop()
		c, err := newCCluster(3, seed, scheme)
		if err != nil {
			rt.Fatalf("cluster: %v", err)
		}
		nut := c.nodes[nutIdx]
		if stallKind == "chain.Put" {
			c.extraTick = 2 * stallFor
		}
		imgRoot, _ := os.MkdirTemp(scratchBase(), "c13img")
		defer os.RemoveAll(imgRoot)
		var (
			hookMu   sync.Mutex // serialises persistence operations of the whole process between :begin and :end
			images   []*crashImage
			imgMu    sync.Mutex
			served   atomic.Uint64
			streamed atomic.Int64
			dbEpoch  atomic.Uint32
			lastStep = "start"
			keyWin   string
			finCount uint32
		)
		// persistence operations are serialised between :begin and :end; an operation that contains others (a store method built
		// from smaller ones) keeps the lock: ownership is tracked by goroutine id
		var ownerMu sync.Mutex
		owner, depth := int64(-1), 0
		verifhook.Set(func(point, target string) {
			if strings.HasSuffix(point, ":begin") {
				me := goid()
				ownerMu.Lock()
				nested := owner == me
				if nested {
					depth++
				}
				ownerMu.Unlock()
				if !nested {
					// schedule perturbation: the drawn kind of operation starts late, so that whatever runs concurrently with it
					// (the beacon side of a DKG completion, the next round) gets ahead
					if stallKind != "none" && strings.HasPrefix(point, stallKind+":") && strings.HasPrefix(target, nut.dir) {
						time.Sleep(stallFor)
					}
					hookMu.Lock()
					ownerMu.Lock()
					owner, depth = me, 1
					ownerMu.Unlock()
				}
			}
			if strings.HasPrefix(target, nut.dir) {
				imgMu.Lock()
				idx := len(images)
				// the completion of an epoch is SaveFinished, then the group file, then the share file: every image taken between the
				// first and the last of these steps (whatever operation it is taken at) lies in the same crash window
				switch k := targetKind(target); {
				case point == "dkg.SaveFinished:end":
					keyWin = "dkg.db records completion, key files not yet written"
				case point == "key.Save:created" && k == "group-file":
					keyWin = "group file truncated in place (key.Save)"
				case point == "key.Save:end" && k == "group-file":
					keyWin = "group file written, share file not yet"
				case point == "key.Save:created" && k == "share-file":
					keyWin = "share file truncated in place (key.Save)"
				case point == "key.Save:end" && k == "share-file":
					keyWin = ""
				}
				img := &crashImage{idx: idx, point: point, target: target, dir: filepath.Join(imgRoot, fmt.Sprintf("img%03d", idx)), served: served.Load(), dbEpoch: dbEpoch.Load(), window: lastStep, keyWin: keyWin, clockNow: c.clock.Now()}
				if cerr := copyTree(nut.dir, img.dir); cerr != nil {
					img.copyErr = cerr
				}
				// the operation at this point is held back by the hook until the copy is done: a beacon that has been served by now
				// was served while the files were in the copied state
				img.served = served.Load()
				images = append(images, img)
				if strings.HasSuffix(point, ":end") || strings.HasSuffix(point, ":created") {
					lastStep = point + "(" + targetKind(target) + ")"
				}
				if point == "dkg.SaveFinished:end" {
					finCount++
					dbEpoch.Store(finCount)
				}
				if point == "chain.Put:end" {
					// the beacon is durable now: from here on the node may serve it
				}
				imgMu.Unlock()
			}
			if strings.HasSuffix(point, ":end") {
				ownerMu.Lock()
				depth--
				release := depth == 0
				if release {
					owner = -1
				}
				ownerMu.Unlock()
				if release {
					hookMu.Unlock()
				}
			}
		})
		defer verifhook.Set(nil)
		// a watcher records what the node has served
		stopWatch := make(chan struct{})
		go func() {
			for {
				select {
				case <-stopWatch:
					return
				default:
				}
				h := c.headOf(nut)
				if h > served.Load() {
					served.Store(h)
				}
				time.Sleep(2 * time.Millisecond)
			}
		}()
		// ---- the script ----
		cutShort := false
		scriptErr := func() error {
			if err := c.firstDKG(thr); err != nil {
				return err
			}
			// a client of the node under test follows its public randomness stream: whatever it receives has been served
			streamCtx, streamCancel := context.WithCancel(context.Background())
			defer streamCancel()
			go func() {
				for streamCtx.Err() == nil {
					_ = nut.dd.PublicRandStream(&drand.PublicRandRequest{Metadata: &drand.Metadata{BeaconID: "default"}},
						&servedStream{ctx: streamCtx, served: &served, count: &streamed})
					time.Sleep(20 * time.Millisecond)
				}
			}()
			if !c.rounds(4) {
				return errors.New("rounds 1-4 were not produced")
			}
			if withReshare {
				if err := c.reshare(thr); err != nil {
					return err
				}
				// across the transition (10 rounds after completion) and a little beyond
				h := c.headOf(nut)
				if !c.rounds(h + 14) {
					// the chain did not get across the transition in time (with t = n every node has to switch in the same round:
					// the nodes' own clocks decide that, see the listed C06 finding; or the machine is starved). The images taken
					// so far are still valid crash images: they are examined, the case is marked as cut short.
					cutShort = true
				}
			}
			return nil
		}()
		close(stopWatch)
		verifhook.Set(nil)
		c.close()
		if scriptErr != nil {
			// not an oracle verdict and not worth shrinking (every attempt costs a cluster): the driver reports exit 2
			fmt.Fprintf(os.Stderr, "HARNESS-ABORT: C13 script failed: %v (%s)\n", scriptErr, desc)
			os.Exit(3)
		}
		// ---- examine the images ----
		sch := fx.Scheme(scheme)
		type found struct {
			key, detail string
			art         map[string]any
		}
		var unknown []found
		// torn writes: between key.Save:created (file truncated) and key.Save:end the file holds a prefix of the new content;
		// two prefixes per file are synthesised from the :end image of the same write
		var torn []*crashImage
		for i, img := range images {
			if img.point != "key.Save:created" {
				continue
			}
			for _, nx := range images[i+1:] {
				if nx.point == "key.Save:end" && nx.target == img.target {
					rel, _ := filepath.Rel(nut.dir, img.target)
					full, err := os.ReadFile(filepath.Join(nx.dir, rel))
					if err != nil || len(full) < 6 {
						break
					}
					for _, frac := range []int{3, 2} {
						ti := *img
						ti.dir = filepath.Join(imgRoot, fmt.Sprintf("img%03d-torn%d", img.idx, frac))
						if img.copyErr != nil || copyTree(img.dir, ti.dir) != nil {
							continue
						}
						_ = os.WriteFile(filepath.Join(ti.dir, rel), full[:len(full)-len(full)/frac], 0o600)
						ti.point = "key.Save:created"
						ti.window = img.window + fmt.Sprintf("+torn(%d/%d bytes)", len(full)-len(full)/frac, len(full))
						torn = append(torn, &ti)
					}
					break
				}
			}
		}
		if cutShort {
			rec.Label("script-cut-short-at-transition")
		}
		rec.LabelN("torn-file-images", int64(len(torn)))
		rec.LabelN("beacons-served-over-the-followed-stream", streamed.Load())
		for _, img := range append(append([]*crashImage{}, images...), torn...) {
			if img.copyErr != nil {
				rec.Label("image-copy-failed")
				continue
			}
			label := fmt.Sprintf("%s@%s", img.point, targetKind(img.target))
			epochTag := fmt.Sprintf("epoch%d", finCountAt(images, img.idx)+boolInt(finCountAt(images, img.idx) == 0))
			window := "after " + img.window + " / at " + label + " / " + epochTag
			if v := examineImage(img, nut, c, sch); v != nil {
				key := "C13/" + v.kind + " @ " + crashClass(img) + " / " + epochTag
				detail := fmt.Sprintf("%s || crash image %d taken at %s (window: %s) || case: %s", v.detail, img.idx, label, window, desc)
				if rec.IsKnown(key) {
					rec.Excluded()
				} else if examineImage(img, nut, c, sch) == nil {
					// an image outside every listed window is examined a second time before it counts: a failure that does not
					// repeat on the same files came from the examination (a transient resource error), not from the image
					rec.Inconclusive(desc)
					rec.Label("image-verdict-not-repeatable")
				} else {
					unknown = append(unknown, found{key, detail, map[string]any{"image": img.idx, "point": img.point, "target": img.target, "window": window, "case": desc}})
				}
				rec.Label("image-violates/" + v.kind)
			}
			rec.Case(fmt.Sprintf("%s img%03d %s", desc, img.idx, window), true, "point/"+label)
		}
		if len(unknown) > 0 {
			var keys []string
			for _, u := range unknown {
				keys = append(keys, u.key)
			}
			u := unknown[0]
			u.art["all_unlisted_keys_in_this_case"] = keys
			rec.Violation(rt, u.key, fmt.Sprintf("%s || %d unlisted violating images in this case: %s", u.detail, len(unknown), strings.Join(keys, " ;; ")), u.art)
		}
		rec.Set("persistence_points_last_case", len(images))
	})
}

// crashClass names the crash window by the persistence call site it falls into.
func crashClass(img *crashImage) string {
	if img.keyWin != "" {
		return img.keyWin
	}
	return "at " + img.point + "@" + targetKind(img.target) + " after " + img.window
}

func boolInt(b bool) int {
	if b {
		return 1
	}
	return 0
}

// finCountAt counts SaveFinished:end events among the images before idx (+1 if idx itself is one).
func finCountAt(images []*crashImage, idx int) int {
	n := 0
	for _, im := range images {
		if im.idx <= idx && im.point == "dkg.SaveFinished:begin" {
			n++
		}
	}
	return n
}

type imgViolation struct{ kind, detail string }

// servedStream is the server side of a PublicRandStream followed by the harness: it records the highest round handed out.
type servedStream struct {
	grpc.ServerStream
	ctx    context.Context
	served *atomic.Uint64
	count  *atomic.Int64
}

func (s *servedStream) Context() context.Context { return s.ctx }
func (s *servedStream) Send(b *drand.PublicRandResponse) error {
	s.count.Add(1)
	for {
		cur := s.served.Load()
		if b.GetRound() <= cur || s.served.CompareAndSwap(cur, b.GetRound()) {
			return nil
		}
	}
}

// goid returns the id of the calling goroutine (parsed from the stack header; used only for lock ownership in the hook handler).
func goid() int64 {
	var buf [64]byte
	n := runtime.Stack(buf[:], false)
	f := strings.Fields(string(buf[:n]))
	if len(f) < 2 {
		return -2
	}
	id, err := strconv.ParseInt(f[1], 10, 64)
	if err != nil {
		return -2
	}
	return id
}

// examineImage restarts a daemon from the image and applies the C13 oracle.
func examineImage(img *crashImage, nut *cNode, c *cCluster, sch interface{ String() string }) (out *imgViolation) {
	work, err := os.MkdirTemp(scratchBase(), "c13work")
	if err != nil {
		return nil
	}
	defer os.RemoveAll(work)
	if err := copyTree(img.dir, work); err != nil {
		return nil
	}
	// (b) the DKG database
	store, err := dkg.NewDKGStore(work)
	if err != nil {
		return &imgViolation{"dkg-db-unreadable", fmt.Sprintf("dkg.db cannot be opened: %v", err)}
	}
	fin, ferr := store.GetFinished("default")
	cur, cerr := store.GetCurrent("default")
	_ = store.Close()
	if ferr != nil || cerr != nil {
		return &imgViolation{"dkg-db-unreadable", fmt.Sprintf("DKG records cannot be decoded: %v / %v", ferr, cerr)}
	}
	var eDB uint32
	if fin != nil {
		eDB = fin.Epoch
		if fin.State != dkg.Complete || fin.FinalGroup == nil || fin.KeyShare == nil {
			return &imgViolation{"finished-record-not-whole", fmt.Sprintf("finished record of epoch %d: state %v group %v share %v", fin.Epoch, fin.State, fin.FinalGroup != nil, fin.KeyShare != nil)}
		}
		if !fin.KeyShare.Public().Equal(fin.FinalGroup.PublicKey) {
			return &imgViolation{"finished-record-not-whole", "group and share of the finished record belong to different keys"}
		}
	}
	// the database records a completion in two places (the current record and the last finished record): they are one record
	if cerr == nil && cur != nil && cur.State == dkg.Complete {
		if fin == nil || fin.Epoch != cur.Epoch || fin.FinalGroup == nil || cur.FinalGroup == nil || !bytes.Equal(fin.FinalGroup.Hash(), cur.FinalGroup.Hash()) {
			fe := uint32(0)
			if fin != nil {
				fe = fin.Epoch
			}
			return &imgViolation{"dkg-db-completion-torn", fmt.Sprintf("dkg.db: the current record says Complete at epoch %d, the last finished record is epoch %d", cur.Epoch, fe)}
		}
	}
	// (c) key folder
	ks := key.NewFileStore(filepath.Join(work, common.MultiBeaconFolder), "default")
	g, gerr := ks.LoadGroup()
	sh, serr := ks.LoadShare()
	for _, e := range []error{gerr, serr, ferr, cerr} {
		// the machine ran out of file descriptors while the image was examined: that says nothing about the image
		if e != nil && strings.Contains(e.Error(), "too many open files") {
			return nil
		}
	}
	groupThere := gerr == nil && g != nil
	shareThere := serr == nil && sh != nil && sh.Share != nil
	if eDB == 0 {
		if groupThere || shareThere {
			// files of an epoch the database does not record as completed
			return &imgViolation{"key-files-ahead-of-dkg-db", fmt.Sprintf("group file present=%v share present=%v although dkg.db records no completed epoch", groupThere, shareThere)}
		}
	} else {
		switch {
		case !groupThere || !shareThere:
			return &imgViolation{"key-files-missing-or-torn", fmt.Sprintf("dkg.db records epoch %d as completed but group file: %v, share file: %v", eDB, errS(gerr, groupThere), errS(serr, shareThere))}
		case !bytes.Equal(g.Hash(), fin.FinalGroup.Hash()) && g.TransitionTime > fin.FinalGroup.TransitionTime:
			return &imgViolation{"key-files-ahead-of-dkg-db", fmt.Sprintf("dkg.db records epoch %d as the last completed one, the group file already holds a later group (transition %d vs %d)", eDB, g.TransitionTime, fin.FinalGroup.TransitionTime)}
		case !bytes.Equal(g.Hash(), fin.FinalGroup.Hash()):
			return &imgViolation{"group-file-of-other-epoch", fmt.Sprintf("dkg.db records epoch %d, the group file holds another group (transition %d vs %d)", eDB, g.TransitionTime, fin.FinalGroup.TransitionTime)}
		case !sh.Public().Equal(g.PublicKey) || !sh.Share.V.Equal(fin.KeyShare.Share.V):
			return &imgViolation{"share-file-of-other-epoch", fmt.Sprintf("dkg.db records epoch %d, the share file holds another share than the record", eDB)}
		}
	}
	// (a) the daemon starts from the image; (d) chain store; (e) keeps running
	clk := clock.NewFakeClockAt(img.clockNow)
	lg := hlog.New(false)
	conf := NewConfig(lg, WithConfigFolder(work), WithPrivateListenAddress(test.FreeBind("127.0.0.1")), WithControlPort(test.FreePort()), WithDBStorageEngine(chain.BoltDB))
	conf.clock = clk
	var dd *DrandDaemon
	var startErr error
	for attempt := 0; attempt < 4; attempt++ {
		func() {
			defer func() {
				if r := recover(); r != nil {
					startErr = fmt.Errorf("panic: %v", r)
				}
			}()
			dd, startErr = NewDrandDaemon(context.Background(), conf)
			if startErr == nil {
				startErr = dd.LoadBeaconsFromDisk(context.Background(), "", false, "")
			}
		}()
		// the free port found a moment ago can be taken by another process by now: that says nothing about the image
		if startErr == nil || !strings.Contains(startErr.Error(), "address already in use") {
			break
		}
		conf = NewConfig(lg, WithConfigFolder(work), WithPrivateListenAddress(test.FreeBind("127.0.0.1")), WithControlPort(test.FreePort()), WithDBStorageEngine(chain.BoltDB))
		conf.clock = clk
		time.Sleep(50 * time.Millisecond)
	}
	if dd != nil {
		defer func() {
			done := make(chan struct{})
			go func() {
				ctx, cancel := context.WithTimeout(context.Background(), 3*time.Second)
				defer cancel()
				dd.Stop(ctx)
				close(done)
			}()
			select {
			case <-done:
			case <-time.After(5 * time.Second):
			}
		}()
	}
	if startErr != nil {
		return &imgViolation{"daemon-does-not-restart", fmt.Sprintf("restart from the image fails: %v", startErr)}
	}
	if eDB > 0 {
		dd.state.RLock()
		bp := dd.beaconProcesses["default"]
		dd.state.RUnlock()
		if bp == nil || bp.beacon == nil {
			return &imgViolation{"daemon-does-not-restart", "no beacon handler after restart although an epoch is completed"}
		}
		info := chain2.NewChainInfo(fin.FinalGroup)
		var prev *common.Beacon
		var scanErr *imgViolation
		count := uint64(0)
		err := bp.beacon.Store().Cursor(context.Background(), func(ctx context.Context, cur chain.Cursor) error {
			b, err := cur.First(ctx)
			for ; err == nil && b != nil; b, err = cur.Next(ctx) {
				if prev == nil && b.Round != 0 {
					scanErr = &imgViolation{"chain-not-gap-free", fmt.Sprintf("chain store starts at round %d", b.Round)}
					return nil
				}
				if prev != nil && b.Round != prev.Round+1 {
					scanErr = &imgViolation{"chain-not-gap-free", fmt.Sprintf("chain store jumps from round %d to %d", prev.Round, b.Round)}
					return nil
				}
				if b.Round > 0 {
					if verr := fin.FinalGroup.Scheme.VerifyBeacon(b, info.PublicKey); verr != nil {
						scanErr = &imgViolation{"chain-beacon-invalid", fmt.Sprintf("round %d in the image does not verify: %v", b.Round, verr)}
						return nil
					}
				}
				cp := *b
				prev = &cp
				count++
			}
			if err != nil && !errors.Is(err, chainerrors.ErrNoBeaconStored) {
				return err
			}
			return nil
		})
		if scanErr != nil {
			return scanErr
		}
		if err != nil && !errors.Is(err, chainerrors.ErrNoBeaconStored) {
			return &imgViolation{"chain-store-unreadable", err.Error()}
		}
		head := uint64(0)
		if prev != nil {
			head = prev.Round
		}
		if head < img.served {
			return &imgViolation{"served-beacon-lost", fmt.Sprintf("the node had served round %d before the crash point, the image only holds rounds up to %d", img.served, head)}
		}
	}
	// (e) it keeps running: a few periods of clock time, no fatal event
	for i := 0; i < 3; i++ {
		clk.Advance(c.period)
		time.Sleep(5 * time.Millisecond)
	}
	if f := lg.Root().FatalEvents(); len(f) > 0 {
		return &imgViolation{"fatal-after-restart", f[0]}
	}
	return nil
}

func errS(err error, there bool) string {
	if there {
		return "ok"
	}
	if err != nil {
		return "unreadable (" + trunc(err.Error(), 80) + ")"
	}
	return "absent"
}
