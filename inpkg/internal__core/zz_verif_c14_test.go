package core

import (
	"context"
	"sync"
	"fmt"
	"strings"
	"testing"
	"time"

	"google.golang.org/grpc"
	"google.golang.org/grpc/credentials/insecure"
	"google.golang.org/protobuf/proto"
	"pgregory.net/rapid"

	"github.com/drand/drand/v2/internal/chain"
	fx "github.com/drand/drand/v2/internal/veriffx"
	"github.com/drand/drand/v2/internal/verifprotofill"
	stats "github.com/drand/drand/v2/internal/verifstats"
	pdkg "github.com/drand/drand/v2/protobuf/dkg"
	"github.com/drand/drand/v2/protobuf/drand"
)

type endpoint struct {
	name string
	msg  func() proto.Message
	call func(ctx context.Context, cl *clients, m proto.Message) error
	// bound for an answer (value or error)
	bound time.Duration
}

type clients struct {
	proto drand.ProtocolClient
	pub   drand.PublicClient
	dkg   pdkg.DKGPublicClient
}

// drainStream reads at most 3 items or until the context ends.
func drainStream[T any](recv func() (T, error)) error {
	var last error
	for i := 0; i < 3; i++ {
		if _, err := recv(); err != nil {
			last = err
			break
		}
	}
	return last
}

func c14Endpoints(period time.Duration) []endpoint {
	return []endpoint{
		{"Protocol.GetIdentity", func() proto.Message { return &drand.IdentityRequest{} }, func(ctx context.Context, c *clients, m proto.Message) error {
			_, err := c.proto.GetIdentity(ctx, m.(*drand.IdentityRequest))
			return err
		}, 5 * time.Second},
		{"Protocol.PartialBeacon", func() proto.Message { return &drand.PartialBeaconPacket{} }, func(ctx context.Context, c *clients, m proto.Message) error {
			_, err := c.proto.PartialBeacon(ctx, m.(*drand.PartialBeaconPacket))
			return err
		}, 5 * time.Second},
		{"Protocol.SyncChain", func() proto.Message { return &drand.SyncRequest{} }, func(ctx context.Context, c *clients, m proto.Message) error {
			sctx, cancel := context.WithTimeout(ctx, 300*time.Millisecond)
			defer cancel()
			s, err := c.proto.SyncChain(sctx, m.(*drand.SyncRequest))
			if err != nil {
				return err
			}
			return drainStream(s.Recv)
		}, 5 * time.Second},
		{"Protocol.Status", func() proto.Message { return &drand.StatusRequest{} }, func(ctx context.Context, c *clients, m proto.Message) error {
			req := m.(*drand.StatusRequest)
			if len(req.CheckConn) > 2 {
				req.CheckConn = req.CheckConn[:2]
			}
			_, err := c.proto.Status(ctx, req)
			return err
		}, 25 * time.Second},
		{"Public.PublicRand", func() proto.Message { return &drand.PublicRandRequest{} }, func(ctx context.Context, c *clients, m proto.Message) error {
			_, err := c.pub.PublicRand(ctx, m.(*drand.PublicRandRequest))
			return err
		}, period + 3*time.Second},
		{"Public.PublicRandStream", func() proto.Message { return &drand.PublicRandRequest{} }, func(ctx context.Context, c *clients, m proto.Message) error {
			sctx, cancel := context.WithTimeout(ctx, 300*time.Millisecond)
			defer cancel()
			s, err := c.pub.PublicRandStream(sctx, m.(*drand.PublicRandRequest))
			if err != nil {
				return err
			}
			return drainStream(s.Recv)
		}, 5 * time.Second},
		{"Public.ChainInfo", func() proto.Message { return &drand.ChainInfoRequest{} }, func(ctx context.Context, c *clients, m proto.Message) error {
			_, err := c.pub.ChainInfo(ctx, m.(*drand.ChainInfoRequest))
			return err
		}, 5 * time.Second},
		{"Public.ListBeaconIDs", func() proto.Message { return &drand.ListBeaconIDsRequest{} }, func(ctx context.Context, c *clients, m proto.Message) error {
			_, err := c.pub.ListBeaconIDs(ctx, m.(*drand.ListBeaconIDsRequest))
			return err
		}, 5 * time.Second},
		{"DKGPublic.Packet", func() proto.Message { return &pdkg.GossipPacket{} }, func(ctx context.Context, c *clients, m proto.Message) error {
			_, err := c.dkg.Packet(ctx, m.(*pdkg.GossipPacket))
			return err
		}, 5 * time.Second},
		{"DKGPublic.BroadcastDKG", func() proto.Message { return &pdkg.DKGPacket{} }, func(ctx context.Context, c *clients, m proto.Message) error {
			_, err := c.dkg.BroadcastDKG(ctx, m.(*pdkg.DKGPacket))
			return err
		}, 5 * time.Second},
	}
}

// TestVerifC14Requests: generated requests on every peer-facing / public gRPC endpoint and HTTP route of a real daemon over
// loopback (real interceptors); each must be answered in bounded time and the node must keep serving afterwards.
func TestVerifC14Requests(t *testing.T) {
	rec := stats.Open(t, "C14")
	rapid.Check(t, func(rt *rapid.T) {
		seed := rapid.Uint64Range(1, 1<<32).Draw(rt, "keyseed")
		specs := []vChainSpec{{ID: "default", Scheme: rapid.SampledFrom(fx.SchemeNames).Draw(rt, "scheme"), Grouped: true}, {ID: "a", Scheme: fx.SchemeNames[1], Grouped: true}, {ID: "u", Scheme: fx.SchemeNames[0], Grouped: false},
			{ID: "c", Scheme: fx.SchemeNames[2], Grouped: true}}
		v, err := newVDaemon(t, seed, specs, chain.BoltDB, false)
		if err != nil {
			rt.Fatalf("daemon: %v", err)
		}
		defer v.close()
		for i := 0; i < 2; i++ {
			v.tick("default", "a")
		}
		// chain "c" is the STOPPED state: loaded (group, chain hash) but its beacon handler is stopped
		v.dd.state.RLock()
		bpC := v.dd.beaconProcesses["c"]
		v.dd.state.RUnlock()
		if bpC == nil {
			rt.Fatalf("harness: chain c not loaded")
		}
		bpC.StopBeacon(context.Background())
		conn, err := grpc.NewClient(v.addr, grpc.WithTransportCredentials(insecure.NewCredentials()))
		if err != nil {
			rt.Fatalf("dial: %v", err)
		}
		defer conn.Close()
		cl := &clients{proto: drand.NewProtocolClient(conn), pub: drand.NewPublicClient(conn), dkg: pdkg.NewDKGPublicClient(conn)}
		def := v.chains["default"]
		fc := &protofill.Ctx{IDs: []string{"default", "a", "u", "c", "c"}, Hashes: [][]byte{def.Hash, v.chains["a"].Hash, v.chains["c"].Hash}, Head: v.head("default")}
		// a valid partial of the only member (the node itself) and its key: lets requests get past early validation
		fc.Valid = append(fc.Valid, def.Net.Partial(0, fc.Head+1, nil))
		kb, _ := def.Net.Pairs[0].Public.Key.MarshalBinary()
		fc.Valid = append(fc.Valid, kb, def.Net.Pairs[0].Public.Signature)
		eps := c14Endpoints(v.period)
		var hist []string
		fail := func(key, detail string) {
			rec.Violation(rt, key, detail+" || requests: "+strings.Join(hist, " ; "), map[string]any{"requests": hist})
		}
		// probes: valid requests on every service must still be answered
		probe := func(after string) bool {
			ctx, cancel := context.WithTimeout(context.Background(), 4*time.Second)
			defer cancel()
			if _, err := cl.pub.ChainInfo(ctx, &drand.ChainInfoRequest{Metadata: &drand.Metadata{BeaconID: "default"}}); err != nil {
				fail("C14/node-stopped-serving", fmt.Sprintf("after %s: ChainInfo probe failed: %v", after, err))
				return false
			}
			if _, err := cl.pub.PublicRand(ctx, &drand.PublicRandRequest{Round: 1, Metadata: &drand.Metadata{BeaconID: "default"}}); err != nil {
				fail("C14/node-stopped-serving", fmt.Sprintf("after %s: PublicRand probe failed: %v", after, err))
				return false
			}
			if _, err := cl.proto.GetIdentity(ctx, &drand.IdentityRequest{Metadata: &drand.Metadata{BeaconID: "a"}}); err != nil {
				fail("C14/node-stopped-serving", fmt.Sprintf("after %s: GetIdentity probe failed: %v", after, err))
				return false
			}
			// the DKG service must answer (an error is fine, a hang is a held lock)
			done := make(chan struct{})
			go func() {
				_, _ = cl.dkg.Packet(ctx, &pdkg.GossipPacket{Metadata: &pdkg.GossipMetadata{BeaconID: "default", Address: "127.0.0.1:1", Signature: []byte{1, 2, 3, 4, 5}}, Packet: &pdkg.GossipPacket_Abort{Abort: &pdkg.AbortDKG{Reason: "probe"}}})
				close(done)
			}()
			select {
			case <-done:
			case <-time.After(4 * time.Second):
				fail("C14/dkg-service-wedged", fmt.Sprintf("after %s: a DKG gossip packet is no longer answered (lock held?)", after))
				return false
			}
			if code, _ := v.httpGet("/info", 3*time.Second); code/100 != 2 {
				fail("C14/node-stopped-serving", fmt.Sprintf("after %s: HTTP /info -> %d", after, code))
				return false
			}
			if f := v.log.Root().FatalEvents(); len(f) > 0 {
				fail("C14/fatal-log", fmt.Sprintf("after %s: fatal log event %s", after, f[0]))
				return false
			}
			return true
		}
		nreq := rapid.IntRange(1, 5).Draw(rt, "requests")
		reached := 0
		for i := 0; i < nreq; i++ {
			useHTTP := rapid.IntRange(0, 5).Draw(rt, "http") == 0
			if useHTTP {
				path := rapid.SampledFrom([]string{"/", "/info", "/public/latest", "/public/0", "/public/1", "/public/18446744073709551615", "/public/-1", "/public/abc", "/public/99999999999999999999",
					"/" + def.HashHex + "/public/" + fmt.Sprint(fc.Head+1), "/" + def.HashHex + "/public/" + fmt.Sprint(fc.Head+5), "/" + strings.Repeat("f", 64) + "/info", "/%00/info", "/chains", "/health", "/" + def.HashHex + "/health",
					"/" + strings.Repeat("a", 5000) + "/info"}).Draw(rt, "path")
				if rapid.IntRange(0, 3).Draw(rt, "cancelledWaiters") == 0 {
					// many requests wait for the next round, most of them give up (client timeout) right around the moment the
					// round is delivered; three rounds in a row
					_, _ = v.httpGet("/"+def.HashHex+"/public/latest", 2*time.Second) // starts the handler's watcher
					v.tick("default")
					time.Sleep(20 * time.Millisecond) // the watcher has seen a round: requests for the next one wait for it
					spread := rapid.IntRange(2, 12).Draw(rt, "timeoutSpreadMs")
					for round := 0; round < 3; round++ {
						var wg sync.WaitGroup
						next := fmt.Sprintf("/%s/public/%d", def.HashHex, v.head("default")+1)
						for k := 0; k < 400; k++ {
							to := time.Duration(200+(k*spread*1000)/400) * time.Microsecond
							if k%8 == 0 {
								to = 2 * time.Second
							}
							wg.Add(1)
							go func() { defer wg.Done(); v.httpGet(next, to) }()
						}
						time.Sleep(time.Duration(rapid.IntRange(0, spread).Draw(rt, "tickAfterMs")) * time.Millisecond)
						v.tick("default")
						wdone := make(chan struct{})
						go func() { wg.Wait(); close(wdone) }()
						select {
						case <-wdone:
						case <-time.After(10 * time.Second):
							fail("C14/request-not-answered", "HTTP requests waiting for the next round were not answered within 10 s")
							return
						}
					}
					hist = append(hist, "3 rounds of 400x GET /<hash>/public/<next> (350 of them cancelled around the delivery)")
					fc.Head = v.head("default")
					continue
				}
				hist = append(hist, "GET "+trunc(path, 60))
				done := make(chan int, 1)
				go func() { c, _ := v.httpGet(path, v.period+3*time.Second); done <- c }()
				select {
				case <-done:
				case <-time.After(v.period + 8*time.Second):
					fail("C14/request-not-answered", "HTTP "+trunc(path, 60)+" was not answered in bounded time")
					return
				}
				continue
			}
			ep := eps[rapid.IntRange(0, len(eps)-1).Draw(rt, "endpoint")]
			if rapid.IntRange(0, 2).Draw(rt, "dkgBias") == 0 {
				ep = eps[len(eps)-1-rapid.IntRange(0, 1).Draw(rt, "dkgEndpoint")]
			}
			m := ep.msg()
			fc.Full = rapid.Bool().Draw(rt, "structurallyComplete")
			protofill.Fill(rt, m.ProtoReflect(), fc, 0, ep.name)
			txt := trunc(fmt.Sprintf("%s %v", ep.name, m), 300)
			hist = append(hist, txt)
			ctx, cancel := context.WithTimeout(context.Background(), ep.bound+5*time.Second)
			done := make(chan error, 1)
			t0 := time.Now()
			go func() { done <- ep.call(ctx, cl, m) }()
			// requests that wait for the next round are released by the clock
			tick := time.NewTimer(200 * time.Millisecond)
			var cerr error
			answered := false
			for !answered {
				select {
				case cerr = <-done:
					answered = true
				case <-tick.C:
					v.clock.Advance(v.period)
					tick.Reset(200 * time.Millisecond)
				case <-time.After(ep.bound + 3*time.Second):
					cancel()
					fail("C14/request-not-answered", fmt.Sprintf("%s was not answered within %v", txt, ep.bound))
					return
				}
			}
			cancel()
			rec.Max("max_answer_ms", float64(time.Since(t0).Milliseconds()))
			if cerr == nil || !strings.Contains(cerr.Error(), "is not running") && !strings.Contains(cerr.Error(), "unknown chainhash") {
				reached++
			}
			if cerr != nil && strings.Contains(cerr.Error(), "panic") {
				rec.Label("handler-panic-contained")
			}
		}
		if !probe("the request sequence") {
			return
		}
		// the stopped chain answers (with an error or a value) and can be started again: a read lock left behind by a request would
		// block the start for ever
		{
			// one plain request per endpoint addressed to the stopped chain (the generated ones reach it only now and then)
			mdC := func() *drand.Metadata { return &drand.Metadata{BeaconID: "c"} }
			for name, call := range map[string]func(ctx context.Context) error{
				"ChainInfo":  func(ctx context.Context) error { _, err := cl.pub.ChainInfo(ctx, &drand.ChainInfoRequest{Metadata: mdC()}); return err },
				"PublicRand": func(ctx context.Context) error { _, err := cl.pub.PublicRand(ctx, &drand.PublicRandRequest{Round: 1, Metadata: mdC()}); return err },
				"PublicRandStream": func(ctx context.Context) error {
					st, err := cl.pub.PublicRandStream(ctx, &drand.PublicRandRequest{Metadata: mdC()})
					if err != nil {
						return err
					}
					return drainStream(st.Recv)
				},
				"SyncChain": func(ctx context.Context) error {
					st, err := cl.proto.SyncChain(ctx, &drand.SyncRequest{FromRound: 1, Metadata: mdC()})
					if err != nil {
						return err
					}
					return drainStream(st.Recv)
				},
				"PartialBeacon": func(ctx context.Context) error {
					_, err := cl.proto.PartialBeacon(ctx, &drand.PartialBeaconPacket{Round: 1, PartialSig: []byte{0, 1, 2, 3}, Metadata: mdC()})
					return err
				},
				"Status":      func(ctx context.Context) error { _, err := cl.proto.Status(ctx, &drand.StatusRequest{Metadata: mdC()}); return err },
				"GetIdentity": func(ctx context.Context) error { _, err := cl.proto.GetIdentity(ctx, &drand.IdentityRequest{Metadata: mdC()}); return err },
			} {
				ctx, cancel := context.WithTimeout(context.Background(), 500*time.Millisecond)
				done := make(chan struct{})
				go func() { _ = call(ctx); close(done) }()
				select {
				case <-done:
				case <-time.After(5 * time.Second):
					cancel()
					fail("C14/request-not-answered", name+" addressed to the stopped chain was not answered within 5 s")
					return
				}
				cancel()
			}
			started := make(chan error, 1)
			go func() { started <- bpC.StartBeacon(context.Background(), true) }()
			select {
			case <-started:
			case <-time.After(6 * time.Second):
				fail("C14/stopped-chain-cannot-restart", "after the requests StartBeacon of the stopped chain did not return within 6 s (lock held?)")
				return
			}
		}
		// the service loops are alive: a tick still produces the next beacon
		h0 := v.head("default")
		v.tick("default")
		v.tick("default")
		if v.head("default") <= h0 {
			fail("C14/beacon-loop-stopped", fmt.Sprintf("after the requests the default chain stays at round %d although its clock advanced", h0))
		}
		rec.Case(strings.Join(hist, " ; "), reached > 0, "daemon", fmt.Sprintf("requests=%d", nreq))
	})
}
