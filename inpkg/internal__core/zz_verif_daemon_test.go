package core

import (
	"context"
	"fmt"
	"net/http"
	"net/http/httptest"
	"os"
	"strings"
	"testing"
	"time"

	clock "github.com/jonboulle/clockwork"

	"github.com/drand/drand/v2/common"
	chain2 "github.com/drand/drand/v2/common/chain"
	"github.com/drand/drand/v2/common/key"
	"github.com/drand/drand/v2/internal/chain"
	"github.com/drand/drand/v2/internal/test"
	fx "github.com/drand/drand/v2/internal/veriffx"
	hlog "github.com/drand/drand/v2/internal/verifhlog"
)

// vChain is one beacon chain hosted by the daemon under test: a single-member group whose key material the harness owns.
type vChain struct {
	ID      string
	Net     *fx.Net
	Info    *chain2.Info
	Hash    []byte
	HashHex string
	Grouped bool
}

// vDaemon is a real DrandDaemon started from key/group/share files written by the harness (the v1->v2 migration path of
// LoadBeaconFromStore), with real listeners on loopback and a fake clock.
type vDaemon struct {
	t      testing.TB
	dd     *DrandDaemon
	dir    string
	clock  *clock.FakeClock
	chains map[string]*vChain
	order  []string
	addr   string
	log    *hlog.Logger
	period time.Duration
}

type vChainSpec struct {
	ID      string
	Scheme  string
	Grouped bool
}

func scratchBase() string {
	if b := os.Getenv("VERIF_SCRATCH"); b != "" {
		return b
	}
	return "/dev/shm"
}

// newVDaemon starts the daemon; listeners are bound to free loopback ports found a moment earlier, which another process can
// grab in between when many shards run: the start is tried up to three times.
func newVDaemon(t testing.TB, seed uint64, specs []vChainSpec, storage chain.StorageType, keepLogs bool) (*vDaemon, error) {
	var v *vDaemon
	var err error
	for attempt := 0; attempt < 3; attempt++ {
		if v, err = newVDaemonOnce(t, seed, specs, storage, keepLogs); err == nil {
			return v, nil
		}
		time.Sleep(50 * time.Millisecond)
	}
	return nil, err
}

func newVDaemonOnce(t testing.TB, seed uint64, specs []vChainSpec, storage chain.StorageType, keepLogs bool) (*vDaemon, error) {
	dir, err := os.MkdirTemp(scratchBase(), "vdaemon")
	if err != nil {
		return nil, err
	}
	addr := test.FreeBind("127.0.0.1")
	var port int
	_, _ = fmt.Sscanf(addr[strings.LastIndex(addr, ":")+1:], "%d", &port)
	t0 := time.Unix(1700000000, 0)
	v := &vDaemon{t: t, dir: dir, clock: clock.NewFakeClockAt(t0), chains: map[string]*vChain{}, addr: addr, log: hlog.New(keepLogs), period: 3 * time.Second}
	conf := NewConfig(v.log, WithConfigFolder(dir), WithPrivateListenAddress(addr), WithPublicListenAddress(test.FreeBind("127.0.0.1")),
		WithControlPort(test.FreePort()), WithDBStorageEngine(storage), WithMemDBSize(2000),
		WithDkgKickoffGracePeriod(300*time.Millisecond), WithDkgPhaseTimeout(3*time.Second))
	conf.clock = v.clock
	for i, sp := range specs {
		id := common.GetCanonicalBeaconID(sp.ID)
		n := fx.NewNet(seed+uint64(i)*7919, fx.Opts{Scheme: sp.Scheme, N: 1, T: 1, Period: v.period, Catchup: time.Second, Genesis: t0.Add(2 * time.Second).Unix(), BeaconID: id, BasePort: port})
		ks := key.NewFileStore(conf.ConfigFolderMB(), id)
		if err := ks.SaveKeyPair(n.Pairs[0]); err != nil {
			return nil, err
		}
		c := &vChain{ID: id, Net: n, Grouped: sp.Grouped}
		if sp.Grouped {
			if err := ks.SaveGroup(n.Group); err != nil {
				return nil, err
			}
			if err := ks.SaveShare(n.Shares[0]); err != nil {
				return nil, err
			}
			c.Info = chain2.NewChainInfo(n.Group)
			c.Hash = c.Info.Hash()
			c.HashHex = c.Info.HashString()
		}
		v.chains[id] = c
		v.order = append(v.order, id)
	}
	dd, err := NewDrandDaemon(context.Background(), conf)
	if err != nil {
		return nil, err
	}
	v.dd = dd
	if err := dd.LoadBeaconsFromDisk(context.Background(), "", false, ""); err != nil {
		return nil, err
	}
	time.Sleep(5 * time.Millisecond)
	return v, nil
}

func (v *vDaemon) close() {
	// a daemon that was wedged by the case (held lock) cannot be stopped: do not let the tear-down hang with it
	done := make(chan struct{})
	go func() {
		ctx, cancel := context.WithTimeout(context.Background(), 5*time.Second)
		defer cancel()
		v.dd.Stop(ctx)
		close(done)
	}()
	select {
	case <-done:
	case <-time.After(8 * time.Second):
	}
	_ = os.RemoveAll(v.dir)
}

// head returns the last stored round of a chain (0 on error).
func (v *vDaemon) head(id string) uint64 {
	v.dd.state.RLock()
	bp := v.dd.beaconProcesses[id]
	v.dd.state.RUnlock()
	if bp == nil || bp.beacon == nil {
		return 0
	}
	b, err := bp.beacon.Store().Last(context.Background())
	if err != nil {
		return 0
	}
	return b.Round
}

// tick advances the clock by one period and waits until every running grouped chain stored the due round.
func (v *vDaemon) tick(ids ...string) {
	v.clock.Advance(v.period)
	want := common.CurrentRound(v.clock.Now().Unix(), v.period, v.clock.Now().Unix())
	_ = want
	deadline := time.Now().Add(3 * time.Second)
	for time.Now().Before(deadline) {
		ok := true
		for _, id := range ids {
			c := v.chains[id]
			if c == nil || !c.Grouped {
				continue
			}
			due := common.CurrentRound(v.clock.Now().Unix(), v.period, c.Net.Group.GenesisTime)
			if v.clock.Now().Unix() < c.Net.Group.GenesisTime {
				continue
			}
			if v.head(id) < due {
				ok = false
			}
		}
		if ok {
			return
		}
		time.Sleep(time.Millisecond)
	}
}

// httpGet serves one request through the daemon's real HTTP handler.
func (v *vDaemon) httpGet(path string, timeout time.Duration) (int, string) {
	ctx, cancel := context.WithTimeout(context.Background(), timeout)
	defer cancel()
	req := httptest.NewRequest(http.MethodGet, path, nil).WithContext(ctx)
	rr := httptest.NewRecorder()
	v.dd.handler.GetHTTPHandler().ServeHTTP(rr, req)
	return rr.Code, rr.Body.String()
}
