package core

import (
	"bytes"
	"context"
	"fmt"
	"os"
	"path/filepath"
	"testing"
	"time"

	"google.golang.org/protobuf/types/known/timestamppb"
	"pgregory.net/rapid"

	"github.com/drand/drand/v2/common"
	"github.com/drand/drand/v2/internal/chain"
	fx "github.com/drand/drand/v2/internal/veriffx"
	stats "github.com/drand/drand/v2/internal/verifstats"
	pdkg "github.com/drand/drand/v2/protobuf/dkg"
	"github.com/drand/drand/v2/protobuf/drand"
)

// TestVerifC07Daemons: the orchestration layer of a resharing (internal/core: transitionToNext, joinNetwork, leaveNetwork)
// on real daemons with a real DKG. Three daemons run epoch 1; a fourth one joins in the resharing (its beacon loaded at
// start-up or later over the control API), optionally one old member is dead and is replaced (it is listed as leaving and
// does not deal), the threshold stays or goes up. Oracle: the chain info (hash, key, genesis, period, scheme) served by every
// member is the same before and after; every member of the new group that is up ends the resharing with the new epoch; when a
// threshold of them is up the chain follows the clock across the transition and three rounds beyond on every one of them; every
// beacon of the node that stored most verifies under the group key.
func TestVerifC07Daemons(t *testing.T) {
	rec := stats.Open(t, "C07")
	caseNo := 0
	rapid.Check(t, func(rt *rapid.T) {
		seed := rapid.Uint64Range(1, 1<<32).Draw(rt, "keyseed")
		scheme := rapid.SampledFrom(fx.SchemeNames).Draw(rt, "scheme")
		t0 := rapid.IntRange(2, 3).Draw(rt, "t0")
		lateLoad := rapid.Bool().Draw(rt, "joinerLoadedOverControlAPI")
		deadOld := rapid.Bool().Draw(rt, "oneOldMemberDead")
		if t0 == 3 {
			deadOld = false // the old shares could not be handed over
		}
		// new group: the old members that are alive + the joiner
		n1 := 4
		if deadOld {
			n1 = 3
		}
		t1 := rapid.IntRange(n1/2+1, n1).Draw(rt, "t1")
		if caseNo == 0 {
			// the first case of shard k is a fixed corner, so that every run covers each of them
			switch stats.Shard() % 6 {
			case 0:
				t0, lateLoad, deadOld, n1, t1 = 2, true, true, 3, 3
			case 1:
				t0, lateLoad, deadOld, n1, t1 = 2, false, true, 3, 3
			case 2:
				t0, lateLoad, deadOld, n1, t1 = 3, true, false, 4, 4
			case 3:
				t0, lateLoad, deadOld, n1, t1 = 2, false, false, 4, 3
			case 4:
				t0, lateLoad, deadOld, n1, t1 = 2, true, true, 3, 2
			}
		}
		caseNo++
		desc := fmt.Sprintf("daemons %s t0=%d/3 joiner(lateLoad=%v) deadOld=%v -> t1=%d/%d seed=%d", scheme, t0, lateLoad, deadOld, t1, n1, seed)
		wd := time.AfterFunc(10*time.Minute, func() {
			fmt.Fprintf(os.Stderr, "HARNESS-ABORT: C07 daemon case still running after 10 minutes (%s)\n", desc)
			os.Exit(3)
		})
		defer wd.Stop()
		cClusterLateLoad = map[int]bool{3: lateLoad}
		c, err := newCCluster(4, seed, scheme)
		cClusterLateLoad = map[int]bool{}
		if err != nil {
			rt.Fatalf("harness: cluster: %v", err)
		}
		defer c.close()
		fail := func(key, detail string) {
			rec.Violation(rt, key, detail+" || case: "+desc, map[string]any{"case": desc})
		}
		ctx := context.Background()
		old, joiner := c.nodes[:3], c.nodes[3]
		parts := func(ns []*cNode) []*pdkg.Participant {
			var out []*pdkg.Participant
			for _, n := range ns {
				out = append(out, n.part)
			}
			return out
		}
		waitEpoch := func(ns []*cNode, epoch uint32, max time.Duration) []*cNode {
			deadline := time.Now().Add(max)
			for {
				var missing []*cNode
				for _, nd := range ns {
					st, err := nd.dd.DKGStatus(ctx, &pdkg.DKGStatusRequest{BeaconID: "default"})
					if err != nil || st.Complete == nil || st.Complete.Epoch != epoch {
						missing = append(missing, nd)
					}
				}
				if len(missing) == 0 || time.Now().After(deadline) {
					return missing
				}
				time.Sleep(50 * time.Millisecond)
			}
		}
		// epoch 1 among the three old members
		genesis := c.clock.Now().Add(6 * time.Second)
		if _, err := old[0].dd.Command(ctx, &pdkg.DKGCommand{Metadata: cmd("default"), Command: &pdkg.DKGCommand_Initial{Initial: &pdkg.FirstProposalOptions{
			Timeout: timestamppb.New(time.Now().Add(2 * time.Minute)), Threshold: uint32(t0), PeriodSeconds: uint32(c.period.Seconds()), Scheme: scheme, CatchupPeriodSeconds: 1,
			GenesisTime: timestamppb.New(genesis), Joining: parts(old)}}}); err != nil {
			rt.Fatalf("harness: initial: %v", err)
		}
		for _, nd := range old[1:] {
			if _, err := nd.dd.Command(ctx, &pdkg.DKGCommand{Metadata: cmd("default"), Command: &pdkg.DKGCommand_Join{Join: &pdkg.JoinOptions{}}}); err != nil {
				rt.Fatalf("harness: join: %v", err)
			}
		}
		if _, err := old[0].dd.Command(ctx, &pdkg.DKGCommand{Metadata: cmd("default"), Command: &pdkg.DKGCommand_Execute{Execute: &pdkg.ExecutionOptions{}}}); err != nil {
			rt.Fatalf("harness: execute: %v", err)
		}
		if m := waitEpoch(old, 1, 90*time.Second); len(m) > 0 {
			rec.Inconclusive(desc)
			rec.Case(desc, false, "epoch1-incomplete")
			return
		}
		cl := &cCluster{nodes: old, clock: c.clock, period: c.period, scheme: scheme}
		if !cl.rounds(3) {
			rec.Inconclusive(desc)
			rec.Case(desc, false, "no-rounds")
			return
		}
		infoOf := func(nd *cNode) (*drand.ChainInfoPacket, error) {
			return nd.dd.ChainInfo(ctx, &drand.ChainInfoRequest{Metadata: &drand.Metadata{BeaconID: "default"}})
		}
		info0, err := infoOf(old[0])
		if err != nil {
			rt.Fatalf("harness: chain info: %v", err)
		}
		groupFile, err := os.ReadFile(filepath.Join(old[0].dir, "multibeacon", "default", "groups", "drand_group.toml"))
		if err != nil {
			rt.Fatalf("harness: group file: %v", err)
		}
		// the resharing
		remaining, leaving := old, []*cNode(nil)
		if deadOld {
			dead := old[2]
			sctx, scancel := context.WithTimeout(ctx, 5*time.Second)
			dead.dd.Stop(sctx)
			scancel()
			remaining, leaving = old[:2], []*cNode{dead}
		}
		if _, err := old[0].dd.Command(ctx, &pdkg.DKGCommand{Metadata: cmd("default"), Command: &pdkg.DKGCommand_Resharing{Resharing: &pdkg.ProposalOptions{
			Timeout: timestamppb.New(time.Now().Add(3 * time.Minute)), Threshold: uint32(t1), CatchupPeriodSeconds: 1,
			Remaining: parts(remaining), Joining: parts([]*cNode{joiner}), Leaving: parts(leaving)}}}); err != nil {
			rt.Fatalf("harness: resharing proposal refused: %v (%s)", err, desc)
		}
		for _, nd := range remaining[1:] {
			if _, err := nd.dd.Command(ctx, &pdkg.DKGCommand{Metadata: cmd("default"), Command: &pdkg.DKGCommand_Accept{Accept: &pdkg.AcceptOptions{}}}); err != nil {
				rt.Fatalf("harness: accept: %v", err)
			}
		}
		if _, err := joiner.dd.Command(ctx, &pdkg.DKGCommand{Metadata: cmd("default"), Command: &pdkg.DKGCommand_Join{Join: &pdkg.JoinOptions{GroupFile: groupFile}}}); err != nil {
			rt.Fatalf("harness: joiner's join: %v", err)
		}
		if _, err := old[0].dd.Command(ctx, &pdkg.DKGCommand{Metadata: cmd("default"), Command: &pdkg.DKGCommand_Execute{Execute: &pdkg.ExecutionOptions{}}}); err != nil {
			rt.Fatalf("harness: execute 2: %v", err)
		}
		members := append(append([]*cNode{}, remaining...), joiner)
		missing := waitEpoch(members, 2, 120*time.Second)
		if len(missing) == len(members) {
			// nobody completed: the real-time protocol did not get through (starved machine): inconclusive
			rec.Inconclusive(desc)
			rec.Case(desc, false, "epoch2-incomplete-everywhere")
			return
		}
		for _, nd := range missing {
			role := "remaining member"
			if nd == joiner {
				role = "joiner"
			}
			fail("C07/member-of-new-group-without-new-epoch", fmt.Sprintf("the resharing completed on %d of %d members of the new group, but the %s %s did not complete it", len(members)-len(missing), len(members), role, nd.addr))
		}
		// across the transition (10 rounds after completion) and three rounds beyond, on every member of the new group
		cm := &cCluster{nodes: members, clock: c.clock, period: c.period, scheme: scheme}
		h := cm.headOf(remaining[0])
		goal := h + 14
		if len(members)-len(missing) >= t1 {
			if !cm.rounds(goal) {
				var hs []string
				for _, nd := range members {
					hs = append(hs, fmt.Sprintf("%s:%d", nd.addr, cm.headOf(nd)))
				}
				fail("C07/chain-halted-across-transition", fmt.Sprintf("all %d members of the new group (threshold %d) are up, but the chain did not reach round %d on every one of them: heads %v", len(members), t1, goal, hs))
			}
		}
		// identity
		for _, nd := range members {
			in, err := infoOf(nd)
			if err != nil {
				if nd == joiner && cm.headOf(nd) == 0 {
					fail("C07/joiner-serves-no-chain", fmt.Sprintf("the joiner %s holds the new epoch but serves no chain info: %v", nd.addr, err))
				}
				continue
			}
			if !bytes.Equal(in.Hash, info0.Hash) || !bytes.Equal(in.PublicKey, info0.PublicKey) || in.GenesisTime != info0.GenesisTime || in.Period != info0.Period || in.SchemeID != info0.SchemeID || !bytes.Equal(in.GroupHash, info0.GroupHash) {
				fail("C07/chain-info-changed", fmt.Sprintf("%s serves another chain info after the resharing: hash %x vs %x", nd.addr, in.Hash, info0.Hash))
			}
		}
		// every stored beacon of the first member verifies under the (unchanged) group key
		if bp := func() *BeaconProcess {
			remaining[0].dd.state.RLock()
			defer remaining[0].dd.state.RUnlock()
			return remaining[0].dd.beaconProcesses["default"]
		}(); bp != nil && bp.beacon != nil {
			sch := fx.Scheme(scheme)
			pk := sch.KeyGroup.Point()
			if err := pk.UnmarshalBinary(info0.PublicKey); err == nil {
				var prev *common.Beacon
				_ = bp.beacon.Store().Cursor(ctx, func(ctx context.Context, cur chain.Cursor) error {
					for b, err := cur.First(ctx); err == nil && b != nil; b, err = cur.Next(ctx) {
						if b.Round > 0 {
							var pv []byte
							if prev != nil {
								pv = prev.Signature
							}
							if verr := fx.VerifyRef(sch, pk, b.Round, b.Signature, pv); verr != nil {
								fail("C07/stored-beacon-does-not-verify", fmt.Sprintf("round %d of %s does not verify under the group key: %v", b.Round, remaining[0].addr, verr))
								return nil
							}
						}
						prev = b
					}
					return nil
				})
			}
		}
		rec.Case(desc, true, "daemons", fmt.Sprintf("late-load=%v", lateLoad), fmt.Sprintf("dead-old-member=%v", deadOld), fmt.Sprintf("threshold-raised=%v", t1 > t0))
	})
}
