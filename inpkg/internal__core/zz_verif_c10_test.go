package core

import (
	"context"
	"errors"
	"fmt"
	"os"
	"strings"
	"sync"
	"testing"
	"time"

	"google.golang.org/grpc"
	"pgregory.net/rapid"

	chain2 "github.com/drand/drand/v2/common/chain"
	"github.com/drand/drand/v2/internal/chain"
	"github.com/drand/drand/v2/internal/chain/boltdb"
	dnet "github.com/drand/drand/v2/internal/net"
	fx "github.com/drand/drand/v2/internal/veriffx"
	stats "github.com/drand/drand/v2/internal/verifstats"
	"github.com/drand/drand/v2/protobuf/drand"
)

// followPeer is one scripted peer of the follow-mode scenarios.
type followPeer struct {
	addr string
	kind string // honest | honest-behind | refuses | silent | closes-after | bad-signature | relabelled | other-chain
	k    int    // position of the lie / number of beacons before closing
	// failFirst makes the first `failFirst` calls of an honest peer fail (transient outage)
	failFirst int
	calls     int
	infoOf    *fx.Net // chain whose info this peer serves
	// forgedLabel makes a peer that serves another chain's info put the PINNED chain's hash into the packet's hash field
	forgedLabel []byte
}

// followNet is the PrivateGateway content handed to the beacon process: ChainInfo and SyncChain are answered by the scripted peers.
type followNet struct {
	dnet.ProtocolClient
	dnet.PublicClient
	mu     sync.Mutex
	peers  map[string]*followPeer
	chain  *fx.Net
	other  *fx.Net
	sigs   map[uint64][]byte // the honest chain, round -> signature
	head   uint64            // what honest peers hold
	opened int
}

func (f *followNet) beacon(n *fx.Net, sigs map[uint64][]byte, r uint64) *drand.BeaconPacket {
	var prev []byte
	if r == 1 {
		prev = n.Group.GenesisSeed
	} else {
		prev = sigs[r-1]
	}
	return &drand.BeaconPacket{Round: r, Signature: sigs[r], PreviousSignature: prev, Metadata: &drand.Metadata{BeaconID: "default"}}
}

func (f *followNet) ChainInfo(_ context.Context, p dnet.Peer, _ *drand.ChainInfoRequest) (*drand.ChainInfoPacket, error) {
	f.mu.Lock()
	defer f.mu.Unlock()
	pe := f.peers[p.Address()]
	if pe == nil || pe.kind == "refuses" {
		return nil, errors.New("connection refused (harness)")
	}
	pkt := chain2.NewChainInfo(pe.infoOf.Group).ToProto(nil)
	if pe.forgedLabel != nil {
		pkt.Hash = append([]byte(nil), pe.forgedLabel...)
	}
	return pkt, nil
}

func (f *followNet) SyncChain(ctx context.Context, p dnet.Peer, in *drand.SyncRequest, _ ...dnet.CallOption) (chan *drand.BeaconPacket, error) {
	f.mu.Lock()
	pe := f.peers[p.Address()]
	f.opened++
	var head uint64
	if pe != nil {
		pe.calls++
		head = f.head
	}
	f.mu.Unlock()
	if pe == nil || pe.kind == "refuses" {
		return nil, errors.New("connection refused (harness)")
	}
	if pe.failFirst >= pe.calls {
		return nil, errors.New("temporarily unavailable (harness)")
	}
	ch := make(chan *drand.BeaconPacket, 4)
	from := in.GetFromRound()
	if from == 0 {
		from = 1
	}
	go func() {
		defer close(ch)
		send := func(b *drand.BeaconPacket) bool {
			select {
			case ch <- b:
				return true
			case <-ctx.Done():
				return false
			}
		}
		switch pe.kind {
		case "silent":
			<-ctx.Done()
			return
		case "honest-behind":
			head = from // has nothing new (at most the round asked for)
			if head > 2 {
				head = 2
			}
		}
		sent := 0
		for r := from; r <= head; r++ {
			b := f.beacon(f.chain, f.sigs, r)
			if sent == pe.k {
				switch pe.kind {
				case "closes-after":
					return
				case "bad-signature":
					b.Signature = append([]byte(nil), b.Signature...)
					b.Signature[len(b.Signature)/2] ^= 0x10
				case "relabelled":
					b.Round = r + 1
				case "other-chain":
					o := &drand.BeaconPacket{Round: r, Signature: f.other.Sign(r, b.PreviousSignature), PreviousSignature: b.PreviousSignature, Metadata: b.Metadata}
					if !fx.Chained(f.chain.Scheme.Name) {
						o.Signature = f.other.Sign(r, nil)
					}
					b = o
				}
			}
			if !send(b) {
				return
			}
			sent++
		}
		// honest peers keep the stream open (live phase); the others just end
		if pe.kind == "honest" {
			last := head
			for {
				select {
				case <-ctx.Done():
					return
				case <-time.After(5 * time.Millisecond):
				}
				f.mu.Lock()
				h := f.head
				f.mu.Unlock()
				for r := last + 1; r <= h; r++ {
					if !send(f.beacon(f.chain, f.sigs, r)) {
						return
					}
				}
				last = h
			}
		}
	}()
	return ch, nil
}

type progressStream struct {
	grpc.ServerStream
	ctx  context.Context
	mu   sync.Mutex
	last uint64
	n    int
}

func (s *progressStream) Context() context.Context { return s.ctx }
func (s *progressStream) Send(p *drand.SyncProgress) error {
	s.mu.Lock()
	s.last = p.GetCurrent()
	s.n++
	s.mu.Unlock()
	return nil
}

// TestVerifC10Follow: follow mode. A daemon that only has a key pair follows a chain (BeaconProcess.StartFollowChain) through
// scripted peers: honest and ahead, honest but behind, refusing, silent, closing after k beacons, lying at position k (bad
// signature, relabelled round, beacon of another chain), peers that serve the chain info of ANOTHER chain, and honest peers
// that are unavailable for their first call(s) (transient outage). Oracle: everything in the follower's store verifies under
// the pinned chain (own digest) and is consecutive from 1; when a peer that serves the pinned chain's info and is honest and
// ahead is in the list, the store reaches the target (bounded wait; the retry pause of the code is one period = 1 s of real
// time), and a follow without target keeps up with rounds the honest peer gets later; with a pinned hash that no peer's info
// matches nothing is stored.
func TestVerifC10Follow(t *testing.T) {
	rec := stats.Open(t, "C10")
	rapid.Check(t, func(rt *rapid.T) {
		scheme := rapid.SampledFrom(fx.SchemeNames).Draw(rt, "scheme")
		seed := rapid.Uint64Range(1, 1<<32).Draw(rt, "keyseed")
		head := uint64(rapid.SampledFrom([]int{3, 8, 20}).Draw(rt, "peerHead"))
		upTo := uint64(0)
		if rapid.Bool().Draw(rt, "withTarget") {
			upTo = head
		}
		v, err := newVDaemon(t, seed, []vChainSpec{{ID: "default", Scheme: scheme, Grouped: false}}, chain.BoltDB, false)
		if err != nil {
			rt.Fatalf("harness: daemon: %v", err)
		}
		defer v.close()
		t0 := v.clock.Now()
		mk := func(s uint64) *fx.Net {
			return fx.NewNet(s, fx.Opts{Scheme: scheme, N: 3, T: 2, Period: time.Second, Catchup: time.Second, Genesis: t0.Add(-1000 * time.Second).Unix(), BeaconID: "default", BasePort: 39000})
		}
		fnet := &followNet{peers: map[string]*followPeer{}, chain: mk(seed + 11), other: mk(seed + 12), sigs: map[uint64][]byte{}, head: head}
		var prev []byte = fnet.chain.Group.GenesisSeed
		for r := uint64(1); r <= head+6; r++ {
			p := prev
			if !fx.Chained(scheme) {
				p = nil
			}
			fnet.sigs[r] = fnet.chain.Sign(r, p)
			prev = fnet.sigs[r]
		}
		np := rapid.IntRange(1, 4).Draw(rt, "peers")
		kinds := []string{"honest", "honest", "honest-behind", "refuses", "silent", "closes-after", "bad-signature", "relabelled", "other-chain"}
		var addrs, descs []string
		honestAhead, transient, foreignInfo := false, false, false
		for i := 0; i < np; i++ {
			pe := &followPeer{addr: fmt.Sprintf("10.9.0.%d:4000", i+1), kind: rapid.SampledFrom(kinds).Draw(rt, "kind"), k: rapid.IntRange(0, 3).Draw(rt, "k"), infoOf: fnet.chain}
			if pe.kind == "honest" && rapid.IntRange(0, 2).Draw(rt, "transient") == 0 {
				pe.failFirst = rapid.IntRange(1, 2).Draw(rt, "failFirst")
				transient = true
			}
			if pe.kind != "honest" && rapid.IntRange(0, 2).Draw(rt, "foreignInfo") == 0 {
				pe.infoOf = fnet.other // serves the chain info of another chain
				foreignInfo = true
				if rapid.Bool().Draw(rt, "forgedHashLabel") {
					pe.forgedLabel = chain2.NewChainInfo(fnet.chain.Group).Hash()
				}
			}
			if pe.kind == "honest" {
				honestAhead = true
			}
			fnet.peers[pe.addr] = pe
			addrs = append(addrs, pe.addr)
			d := pe.kind
			if pe.failFirst > 0 {
				d += fmt.Sprintf("(unavailable x%d)", pe.failFirst)
			}
			if pe.infoOf == fnet.other {
				d += "(foreign-info)"
				if pe.forgedLabel != nil {
					d += "(labelled-with-pinned-hash)"
				}
			}
			if strings.HasPrefix(pe.kind, "closes") || pe.kind == "bad-signature" || pe.kind == "relabelled" || pe.kind == "other-chain" {
				d += fmt.Sprintf("@%d", pe.k)
			}
			descs = append(descs, d)
		}
		pinOther := !honestAhead && rapid.IntRange(0, 3).Draw(rt, "pinOtherHash") == 0
		desc := fmt.Sprintf("follow %s head=%d upTo=%d peers=%v pinOther=%v seed=%d", scheme, head, upTo, descs, pinOther, seed)
		fail := func(key, detail string) {
			rec.Violation(rt, key, detail+" || case: "+desc, map[string]any{"case": desc})
		}
		v.dd.state.RLock()
		bp := v.dd.beaconProcesses["default"]
		v.dd.state.RUnlock()
		if bp == nil {
			rt.Fatalf("harness: no beacon process")
		}
		bp.state.Lock()
		bp.privGateway = &dnet.PrivateGateway{ProtocolClient: fnet, PublicClient: fnet}
		bp.state.Unlock()
		pin := chain2.NewChainInfo(fnet.chain.Group).Hash()
		if pinOther {
			pin = chain2.NewChainInfo(mk(seed + 13).Group).Hash()
		}
		ctx, cancel := context.WithCancel(context.Background())
		ps := &progressStream{ctx: ctx}
		done := make(chan error, 1)
		go func() {
			done <- bp.StartFollowChain(ctx, &drand.StartSyncRequest{Nodes: addrs, UpTo: upTo, Metadata: &drand.Metadata{BeaconID: "default", ChainHash: pin}}, ps)
		}()
		// bounded wait: an honest-ahead peer => the store must reach the target. Every failed pass costs one period (1 s) of real
		// time before the retry; peers are tried in random order, so allow for several passes.
		// progress messages are rate-limited (one in 300 rounds while far behind the clock): the follower's store is read directly
		followHead := func() uint64 {
			defer func() { _ = recover() }()
			if st := bp.dbStore; st != nil {
				if b, err := st.Last(context.Background()); err == nil && b != nil {
					return b.Round
				}
			}
			return 0
		}
		lastSeen := uint64(0)
		reached := func() bool {
			if h := followHead(); h > lastSeen {
				lastSeen = h
			}
			return lastSeen >= head
		}
		var ferr error
		ended := false
		wait := func(max time.Duration, cond func() bool) bool {
			deadline := time.Now().Add(max)
			for time.Now().Before(deadline) {
				select {
				case ferr = <-done:
					ended = true
					return cond()
				default:
				}
				if cond() {
					return true
				}
				v.clock.Advance(time.Second)
				time.Sleep(20 * time.Millisecond)
			}
			return cond()
		}
		budget := 4 * time.Second
		if honestAhead && !pinOther {
			budget = 14 * time.Second
		}
		ok := wait(budget, reached)
		keptUp := true
		if ok && !ended && upTo == 0 && honestAhead {
			// follow without a target keeps following: the honest peers get 3 more rounds
			fnet.mu.Lock()
			fnet.head = head + 3
			fnet.mu.Unlock()
			head += 3
			keptUp = wait(8*time.Second, reached)
			head -= 3
		}
		cancel()
		if !ended {
			select {
			case ferr = <-done:
			case <-time.After(10 * time.Second):
				fail("C10/follow-does-not-stop", "StartFollowChain did not return within 10 s after its context was cancelled")
				return
			}
		}
		// the store the follower wrote
		stored := uint64(0)
		func() {
			path := bp.opts.DBFolder("default")
			if _, err := os.Stat(path); err != nil {
				return
			}
			st, err := boltdb.NewBoltStore(context.Background(), v.log, path)
			if err != nil {
				return
			}
			defer st.Close()
			want := uint64(0)
			_ = st.Cursor(context.Background(), func(ctx context.Context, cur chain.Cursor) error {
				for b, err := cur.First(ctx); err == nil && b != nil; b, err = cur.Next(ctx) {
					if b.Round != want {
						fail("C10/follow-store-not-consecutive", fmt.Sprintf("the follower's store holds round %d where %d was due", b.Round, want))
						return nil
					}
					want++
					if b.Round == 0 {
						continue
					}
					pv := fnet.sigs[b.Round-1]
					if b.Round == 1 {
						pv = fnet.chain.Group.GenesisSeed
					}
					if err := fx.VerifyRef(fnet.chain.Scheme, fnet.chain.PublicKey(), b.Round, b.Signature, pv); err != nil {
						fail("C10/follow-stored-unverified-beacon", fmt.Sprintf("the follower stored round %d with a signature that does not verify under the pinned chain: %v", b.Round, err))
						return nil
					}
					stored = b.Round
				}
				return nil
			})
		}()
		if pinOther && stored > 0 {
			fail("C10/follow-ignores-pinned-hash", fmt.Sprintf("the pinned chain hash matches no peer's chain info, yet %d rounds were stored", stored))
		}
		if stored > lastSeen {
			lastSeen = stored
		}
		if !ok && stored >= head {
			ok = true // the follow reached its target and returned (the store was closed) before it was polled
		}
		if ok && upTo == 0 && !keptUp && stored >= head+3 {
			keptUp = true
		}
		if honestAhead && !pinOther {
			if !ok {
				fail("C10/follow-does-not-converge", fmt.Sprintf("an honest peer holding round %d was in the list, but after %v the follower's store was at round %d (returned=%v err=%v, %d sync streams opened)", head, budget, lastSeen, ended, ferr, fnet.opened))
			} else if !keptUp {
				fail("C10/follow-stops-following", fmt.Sprintf("the follow without target reached round %d but did not pick up the 3 rounds the honest peer got afterwards (store at %d)", head, lastSeen))
			}
		}
		labels := []string{"follow", "scheme/" + scheme, fmt.Sprintf("honest-ahead=%v", honestAhead), fmt.Sprintf("transient=%v", transient), fmt.Sprintf("foreign-info=%v", foreignInfo), fmt.Sprintf("pin-other=%v", pinOther)}
		for _, d := range descs {
			labels = append(labels, "peer/"+strings.SplitN(d, "@", 2)[0])
		}
		rec.Case(desc, np >= 2 || transient || pinOther, labels...)
	})
}
