package core

import (
	"bytes"
	"context"
	"encoding/json"
	"errors"
	"fmt"
	"sort"
	"strings"
	"testing"
	"time"

	"google.golang.org/grpc"
	"pgregory.net/rapid"

	"github.com/drand/drand/v2/common"
	"github.com/drand/drand/v2/common/key"
	"github.com/drand/drand/v2/internal/chain"
	fx "github.com/drand/drand/v2/internal/veriffx"
	stats "github.com/drand/drand/v2/internal/verifstats"
	"github.com/drand/drand/v2/protobuf/drand"
)

// firstItemStream collects the first item of a server stream and then ends it.
type firstItemStream struct {
	grpc.ServerStream
	ctx    context.Context
	cancel context.CancelFunc
	beacon *drand.BeaconPacket
	rand   *drand.PublicRandResponse
}

var errGotOne = errors.New("harness: got the first item")

func (s *firstItemStream) Context() context.Context { return s.ctx }

type syncStream struct{ *firstItemStream }

func (s syncStream) Send(b *drand.BeaconPacket) error {
	s.beacon = b
	s.cancel()
	return errGotOne
}

type randStream struct{ *firstItemStream }

func (s randStream) Send(b *drand.PublicRandResponse) error {
	s.rand = b
	s.cancel()
	return errGotOne
}

type idChoice struct {
	name string
	id   string
	nilMD bool
}
type hashChoice struct {
	name string
	hash []byte
	of   string // chain id this hash belongs to ("" = none)
}

// expectedChain is the reference routing function written from the statement. It returns the chain id that must answer,
// or "" if the request must be refused.
func expectedChain(v *vDaemon, running map[string]bool, idc idChoice, hc hashChoice) string {
	id := idc.id
	if hc.hash != nil {
		if hc.of == "" || !running[hc.of] {
			return "" // unknown / malformed / stopped hash: refuse (an ungrouped process named by id can only say "not ready")
		}
		if id == "" || common.CompareBeaconIDs(id, hc.of) {
			return hc.of
		}
		return "" // mismatching pair
	}
	cid := common.GetCanonicalBeaconID(id)
	if running[cid] && v.chains[cid] != nil && v.chains[cid].Grouped {
		return cid
	}
	return ""
}

func (v *vDaemon) verifyUnder(c *vChain, round uint64, sig, prev []byte) error {
	return fx.VerifyRef(c.Net.Scheme, c.Net.PublicKey(), round, sig, prev)
}

// TestVerifC19Routing enumerates the (beacon id x chain hash x endpoint) matrix on a multi-chain daemon over load/stop/reload histories.
func TestVerifC19Routing(t *testing.T) {
	rec := stats.Open(t, "C19")
	rapid.Check(t, func(rt *rapid.T) {
		seed := rapid.Uint64Range(1, 1<<32).Draw(rt, "keyseed")
		withDefault := rapid.IntRange(0, 3).Draw(rt, "withDefault") > 0
		ids := []string{"a", "b"}
		if withDefault {
			ids = append([]string{"default"}, ids...)
		}
		if rapid.Bool().Draw(rt, "twoChains") {
			ids = ids[:2]
		}
		var specs []vChainSpec
		for _, id := range ids {
			specs = append(specs, vChainSpec{ID: id, Scheme: rapid.SampledFrom(fx.SchemeNames).Draw(rt, "scheme-"+id), Grouped: true})
		}
		withUngrouped := rapid.Bool().Draw(rt, "ungrouped")
		if withUngrouped {
			specs = append(specs, vChainSpec{ID: "u", Scheme: fx.SchemeNames[0], Grouped: false})
		}
		storage := chain.BoltDB
		if rapid.Bool().Draw(rt, "memdb") {
			storage = chain.MemDB
		}
		v, err := newVDaemon(t, seed, specs, storage, false)
		if err != nil {
			rt.Fatalf("daemon: %v", err)
		}
		defer v.close()
		running := map[string]bool{}
		for _, sp := range specs {
			running[common.GetCanonicalBeaconID(sp.ID)] = true
		}
		for i := 0; i < 3; i++ {
			v.tick(ids...)
		}
		var hist []string
		cells := 0
		fail := func(key, detail string) {
			rec.Violation(rt, key, fmt.Sprintf("%s || chains=%v ungrouped=%v storage=%s history=%v", detail, ids, withUngrouped, storage, hist), map[string]any{"history": hist})
		}
		ctxT := func() (context.Context, context.CancelFunc) { return context.WithTimeout(context.Background(), 3*time.Second) }

		sweep := func() {
			idcs := []idChoice{{name: "nil-metadata", nilMD: true}, {name: "absent", id: ""}, {name: "default", id: "default"}, {name: "unknown", id: "zzz"}}
			for _, id := range []string{"a", "b", "u"} {
				idcs = append(idcs, idChoice{name: "id-" + id, id: id})
			}
			hcs := []hashChoice{{name: "absent"}, {name: "unknown32", hash: bytes.Repeat([]byte{0xab}, 32)}, {name: "short", hash: []byte{1, 2, 3, 4, 5}}, {name: "literal-default", hash: []byte("default")}}
			for _, id := range v.order {
				if c := v.chains[id]; c.Grouped {
					hcs = append(hcs, hashChoice{name: "hash-of-" + id, hash: c.Hash, of: id})
				}
			}
			for _, idc := range idcs {
				for _, hc := range hcs {
					if idc.nilMD && hc.hash != nil {
						continue
					}
					md := func() *drand.Metadata {
						if idc.nilMD {
							return nil
						}
						return &drand.Metadata{BeaconID: idc.id, ChainHash: append([]byte(nil), hc.hash...)}
					}
					want := expectedChain(v, running, idc, hc)
					cell := fmt.Sprintf("id=%s hash=%s", idc.name, hc.name)
					check := func(endpoint string, err error, attributed func(c *vChain) error) {
						cells++
						if want == "" {
							if err == nil {
								// which chain answered?
								who := "?"
								for _, id := range v.order {
									if c := v.chains[id]; c.Grouped && attributed(c) == nil {
										who = id
									}
								}
								fail("C19/request-not-refused", fmt.Sprintf("%s [%s] must be refused but was answered (by chain %q)", endpoint, cell, who))
							}
							return
						}
						if err != nil {
							fail("C19/request-refused", fmt.Sprintf("%s [%s] must be served by chain %q but failed: %v", endpoint, cell, want, err))
							return
						}
						if aerr := attributed(v.chains[want]); aerr != nil {
							who := "nobody"
							for _, id := range v.order {
								if c := v.chains[id]; c.Grouped && attributed(c) == nil {
									who = id
								}
							}
							fail("C19/answered-by-other-chain", fmt.Sprintf("%s [%s] must be served by chain %q, the answer belongs to %q (%v)", endpoint, cell, want, who, aerr))
						}
					}
					// PublicRand (round 1 exists on every running chain)
					{
						ctx, cancel := ctxT()
						resp, err := v.dd.PublicRand(ctx, &drand.PublicRandRequest{Round: 1, Metadata: md()})
						cancel()
						check("PublicRand", err, func(c *vChain) error {
							if resp.GetRound() != 1 {
								return fmt.Errorf("round %d", resp.GetRound())
							}
							return v.verifyUnder(c, resp.GetRound(), resp.GetSignature(), resp.GetPreviousSignature())
						})
					}
					// ChainInfo
					{
						ctx, cancel := ctxT()
						resp, err := v.dd.ChainInfo(ctx, &drand.ChainInfoRequest{Metadata: md()})
						cancel()
						check("ChainInfo", err, func(c *vChain) error {
							if !bytes.Equal(resp.GetHash(), c.Hash) {
								return fmt.Errorf("hash %x", resp.GetHash())
							}
							return nil
						})
					}
					// GetIdentity
					{
						ctx, cancel := ctxT()
						resp, err := v.dd.GetIdentity(ctx, &drand.IdentityRequest{Metadata: md()})
						cancel()
						wantID := want
						hashUnknownNow := hc.hash != nil && (hc.of == "" || !running[hc.of])
						if want == "" && !idc.nilMD && (hc.hash == nil || hashUnknownNow) && running[common.GetCanonicalBeaconID(idc.id)] &&
							v.chains[common.GetCanonicalBeaconID(idc.id)] != nil && (hc.hash == nil || !v.chains[common.GetCanonicalBeaconID(idc.id)].Grouped) {
							// a loaded but ungrouped chain does have an identity to show
							wantID = common.GetCanonicalBeaconID(idc.id)
						}
						saved := want
						want = wantID
						check("GetIdentity", err, func(c *vChain) error {
							kb, _ := c.Net.Pairs[0].Public.Key.MarshalBinary()
							if !bytes.Equal(resp.GetKey(), kb) {
								return errors.New("other key")
							}
							return nil
						})
						want = saved
					}
					// SyncChain: first streamed beacon
					{
						ctx, cancel := ctxT()
						fs := &firstItemStream{ctx: ctx, cancel: cancel}
						err := v.dd.SyncChain(&drand.SyncRequest{FromRound: 1, Metadata: md()}, syncStream{fs})
						cancel()
						if fs.beacon != nil {
							err = nil
						} else if err == nil {
							err = errors.New("stream ended without an item")
						}
						check("SyncChain", err, func(c *vChain) error {
							return v.verifyUnder(c, fs.beacon.GetRound(), fs.beacon.GetSignature(), fs.beacon.GetPreviousSignature())
						})
					}
					// PublicRandStream
					{
						ctx, cancel := ctxT()
						fs := &firstItemStream{ctx: ctx, cancel: cancel}
						err := v.dd.PublicRandStream(&drand.PublicRandRequest{Round: 1, Metadata: md()}, randStream{fs})
						cancel()
						if fs.rand != nil {
							err = nil
						} else if err == nil {
							err = errors.New("stream ended without an item")
						}
						check("PublicRandStream", err, func(c *vChain) error {
							return v.verifyUnder(c, fs.rand.GetRound(), fs.rand.GetSignature(), fs.rand.GetPreviousSignature())
						})
					}
					// control: PublicKey, GroupFile
					{
						ctx, cancel := ctxT()
						resp, err := v.dd.GroupFile(ctx, &drand.GroupRequest{Metadata: md()})
						cancel()
						check("GroupFile", err, func(c *vChain) error {
							g, gerr := key.GroupFromProto(resp, nil)
							if gerr != nil {
								return gerr
							}
							if !bytes.Equal(g.Hash(), c.Net.Group.Hash()) {
								return errors.New("other group")
							}
							return nil
						})
					}
				}
			}
			// HTTP
			for _, id := range v.order {
				c := v.chains[id]
				if !c.Grouped {
					continue
				}
				for _, route := range []string{"/info", "/public/latest", "/public/1"} {
					code, body := v.httpGet("/"+c.HashHex+route, 3*time.Second)
					cells++
					if !running[id] {
						if code/100 == 2 {
							fail("C19/http-stopped-chain-served", fmt.Sprintf("GET /%s%s -> %d after chain %q was stopped", c.HashHex[:8], route, code, id))
						}
						continue
					}
					if code/100 != 2 {
						fail("C19/http-refused", fmt.Sprintf("GET /<hash of %s>%s -> %d %s", id, route, code, trunc(body, 80)))
						continue
					}
					if err := v.httpAttributed(c, route, body); err != nil {
						fail("C19/http-answered-by-other-chain", fmt.Sprintf("GET /<hash of %s>%s: %v (%s)", id, route, err, trunc(body, 120)))
					}
				}
			}
			for _, route := range []string{"/info", "/public/latest", "/public/1"} {
				code, body := v.httpGet(route, 3*time.Second)
				cells++
				if running["default"] {
					if code/100 != 2 {
						fail("C19/http-refused", fmt.Sprintf("GET %s -> %d although the default chain runs", route, code))
					} else if err := v.httpAttributed(v.chains["default"], route, body); err != nil {
						fail("C19/http-answered-by-other-chain", fmt.Sprintf("GET %s (no hash) not answered by the default chain: %v", route, err))
					}
				} else if code/100 == 2 {
					fail("C19/http-not-refused", fmt.Sprintf("GET %s -> %d %s although no default chain runs", route, code, trunc(body, 80)))
				}
			}
			for _, bad := range []string{strings.Repeat("ab", 32), "zz", "default"} {
				if bad == "default" && running["default"] {
					continue
				}
				code, _ := v.httpGet("/"+bad+"/info", 3*time.Second)
				cells++
				if code/100 == 2 {
					fail("C19/http-not-refused", fmt.Sprintf("GET /%s/info -> %d", bad, code))
				}
			}
			// /chains and ListBeaconIDs list exactly the running chains
			code, body := v.httpGet("/chains", 3*time.Second)
			var listed []string
			_ = json.Unmarshal([]byte(body), &listed)
			var wantHashes []string
			for _, id := range v.order {
				if c := v.chains[id]; c.Grouped && running[id] {
					wantHashes = append(wantHashes, c.HashHex)
				}
			}
			sort.Strings(listed)
			sort.Strings(wantHashes)
			if code/100 != 2 || strings.Join(listed, ",") != strings.Join(wantHashes, ",") {
				fail("C19/chains-list-wrong", fmt.Sprintf("GET /chains -> %d %v, running chains %v", code, listed, wantHashes))
			}
		}

		hist = append(hist, "initial")
		sweep()
		// stop one grouped chain through the control API, sweep, reload it, sweep, stop the default chain (if any), sweep
		victim := ids[rapid.IntRange(0, len(ids)-1).Draw(rt, "stop")]
		if _, err := v.dd.Shutdown(context.Background(), &drand.ShutdownRequest{Metadata: &drand.Metadata{BeaconID: victim}}); err != nil {
			rt.Fatalf("shutdown(%s): %v", victim, err)
		}
		running[victim] = false
		hist = append(hist, "stop("+victim+")")
		sweep()
		// an in-memory chain loses its beacons when it is stopped and, being alone in its group, has nobody to bootstrap from: reload only with bolt
		if storage == chain.BoltDB && rapid.Bool().Draw(rt, "reload") {
			if _, err := v.dd.LoadBeacon(context.Background(), &drand.LoadBeaconRequest{Metadata: &drand.Metadata{BeaconID: victim}}); err != nil {
				fail("C19/reload-failed", fmt.Sprintf("LoadBeacon(%s) after Shutdown failed: %v", victim, err))
			} else {
				running[victim] = true
				hist = append(hist, "load("+victim+")")
				v.tick(victim)
				sweep()
			}
		}
		if withDefault && running["default"] && rapid.Bool().Draw(rt, "stopDefault") {
			if _, err := v.dd.Shutdown(context.Background(), &drand.ShutdownRequest{Metadata: &drand.Metadata{BeaconID: "default"}}); err == nil {
				running["default"] = false
				hist = append(hist, "stop(default)")
				sweep()
			}
		}
		// the loaded-but-ungrouped id is stopped as well: afterwards it must not resolve any more, and it can be loaded again
		if withUngrouped && rapid.Bool().Draw(rt, "stopUngrouped") {
			if _, err := v.dd.Shutdown(context.Background(), &drand.ShutdownRequest{Metadata: &drand.Metadata{BeaconID: "u"}}); err != nil {
				fail("C19/stop-failed", fmt.Sprintf("Shutdown(u) of the ungrouped id failed: %v", err))
			} else {
				running["u"] = false
				hist = append(hist, "stop(u)")
				sweep()
				if _, err := v.dd.LoadBeacon(context.Background(), &drand.LoadBeaconRequest{Metadata: &drand.Metadata{BeaconID: "u"}}); err != nil {
					fail("C19/reload-failed", fmt.Sprintf("LoadBeacon(u) after Shutdown(u) failed: %v", err))
				} else {
					running["u"] = true
					hist = append(hist, "load(u)")
					sweep()
				}
			}
		}
		rec.LabelN("matrix-cells", int64(cells))
		rec.Case(fmt.Sprintf("chains=%v ungrouped=%v storage=%s seed=%d history=%v", ids, withUngrouped, storage, seed, hist), true, fmt.Sprintf("chains=%d", len(ids)), fmt.Sprintf("default=%v", withDefault))
	})
}

func trunc(s string, n int) string {
	if len(s) > n {
		return s[:n]
	}
	return s
}

// httpAttributed checks that an HTTP body belongs to chain c.
func (v *vDaemon) httpAttributed(c *vChain, route, body string) error {
	switch {
	case strings.HasSuffix(route, "/info"):
		var m map[string]any
		if err := json.Unmarshal([]byte(body), &m); err != nil {
			return err
		}
		if h, _ := m["hash"].(string); h != c.HashHex {
			return fmt.Errorf("info hash %q is not %s", h, c.HashHex[:8])
		}
	case strings.Contains(route, "/public/"):
		var b struct {
			Round     uint64          `json:"round"`
			Sig       common.HexBytes `json:"signature"`
			Prev      common.HexBytes `json:"previous_signature"`
			Rand      common.HexBytes `json:"randomness"`
		}
		if err := json.Unmarshal([]byte(body), &b); err != nil {
			return err
		}
		return v.verifyUnder(c, b.Round, b.Sig, b.Prev)
	}
	return nil
}
