package core

import (
	"bytes"
	"encoding/hex"
	"encoding/json"
	"context"
	"crypto/sha256"
	"fmt"
	"sync"
	"sync/atomic"
	"testing"
	"time"

	"pgregory.net/rapid"

	"github.com/drand/drand/v2/common"
	"github.com/drand/drand/v2/internal/chain"
	fx "github.com/drand/drand/v2/internal/veriffx"
	stats "github.com/drand/drand/v2/internal/verifstats"
	"github.com/drand/drand/v2/protobuf/drand"
)

// TestVerifC01PublicRand: the request clause of C01 at the daemon level. A real single-member daemon produces rounds (fake
// clock) while G concurrent requesters keep asking PublicRand for the head, the round after the head (which the node answers
// by waiting for the next stored beacon), round 0 (latest), an old round and a round two ahead. Ticks come singly or in
// bursts of two or three with drawn real-time spacing, so that a beacon is often stored between a request's look at the head
// and the registration of its waiter. Oracle: a successful answer to a request for round r > 0 carries round r; every answer
// verifies under the chain's key (own digest) for the round it carries, with the previous signature it carries; its
// randomness is sha256(signature); latest answers lie between the head before and after the call.
func TestVerifC01PublicRand(t *testing.T) {
	rec := stats.Open(t, "C01")
	rapid.Check(t, func(rt *rapid.T) {
		scheme := rapid.SampledFrom(fx.SchemeNames).Draw(rt, "scheme")
		seed := rapid.Uint64Range(1, 1<<32).Draw(rt, "keyseed")
		storage := rapid.SampledFrom([]chain.StorageType{chain.BoltDB, chain.MemDB}).Draw(rt, "storage")
		g := rapid.SampledFrom([]int{4, 16, 48}).Draw(rt, "requesters")
		nticks := rapid.IntRange(6, 14).Draw(rt, "ticks")
		bursts := make([]int, nticks)
		gaps := make([]int, nticks)
		for i := range bursts {
			bursts[i] = rapid.SampledFrom([]int{1, 1, 2, 2, 3}).Draw(rt, "burst")
			gaps[i] = rapid.SampledFrom([]int{0, 0, 1, 3, 10}).Draw(rt, "gapMs")
		}
		withSync := rapid.Bool().Draw(rt, "syncBursts")
		var syncBursts atomic.Int64
		desc := fmt.Sprintf("publicrand %s storage=%s requesters=%d bursts=%v gaps=%v syncBursts=%v seed=%d", scheme, storage, g, bursts, gaps, withSync, seed)
		v, err := newVDaemon(t, seed, []vChainSpec{{ID: "default", Scheme: scheme, Grouped: true}}, storage, false)
		if err != nil {
			rt.Fatalf("harness: daemon: %v", err)
		}
		defer v.close()
		c := v.chains["default"]
		sch := fx.Scheme(scheme)
		pk := c.Net.PublicKey()
		v.tick("default")
		v.tick("default")
		var (
			mu        sync.Mutex
			viol      []string
			answers   atomic.Int64
			waited    atomic.Int64
			raced     atomic.Int64
			stop      atomic.Bool
			wg        sync.WaitGroup
			kindCount [5]atomic.Int64
		)
		report := func(key, detail string) {
			mu.Lock()
			viol = append(viol, key+"\x00"+detail)
			mu.Unlock()
		}
		md := func() *drand.Metadata { return &drand.Metadata{BeaconID: "default"} }
		for w := 0; w < g; w++ {
			wg.Add(1)
			go func(w int) {
				defer wg.Done()
				for i := 0; !stop.Load(); i++ {
					h := v.head("default")
					kind := (w + i) % 8
					var r uint64
					switch {
					case kind <= 4:
						r = h + 1 // the waiter path
						kind = 0
					case kind == 5:
						r = h
						kind = 1
					case kind == 6:
						r = 0
						kind = 2
					default:
						if i%2 == 0 {
							r = 1
							kind = 3
						} else {
							r = h + 2
							kind = 4
						}
					}
					kindCount[kind].Add(1)
					ctx, cancel := context.WithTimeout(context.Background(), 3*time.Second)
					resp, err := v.dd.PublicRand(ctx, &drand.PublicRandRequest{Round: r, Metadata: md()})
					cancel()
					if err != nil || resp == nil {
						continue
					}
					after := v.head("default")
					answers.Add(1)
					if kind == 0 {
						waited.Add(1)
						if after > r {
							raced.Add(1)
						}
					}
					if r > 0 && resp.Round != r {
						report("C01/answer-for-other-round", fmt.Sprintf("PublicRand(round=%d) was answered with the beacon of round %d (head before the call %d, after %d)", r, resp.Round, h, after))
					}
					if r == 0 && (resp.Round < h || resp.Round > after) {
						report("C01/latest-outside-head-interval", fmt.Sprintf("PublicRand(latest) answered round %d, head was %d before and %d after the call", resp.Round, h, after))
					}
					if err := fx.VerifyRef(sch, pk, resp.Round, resp.Signature, resp.PreviousSignature); err != nil {
						report("C01/served-beacon-does-not-verify", fmt.Sprintf("PublicRand(round=%d) answer {round %d} does not verify under the chain key: %v", r, resp.Round, err))
					}
					if len(resp.Randomness) > 0 {
						if d := sha256.Sum256(resp.Signature); !bytes.Equal(d[:], resp.Randomness) {
							report("C01/randomness-not-hash-of-signature", fmt.Sprintf("PublicRand(round=%d): randomness is not sha256(signature)", r))
						}
					}
				}
			}(w)
		}
		// HTTP requesters: the daemon's real HTTP handler (fed by the daemon's own watch proxy) asked for the round after the head
		// (it waits for its watcher), the head and an old round
		httpReq := g / 4
		if httpReq < 2 {
			httpReq = 2
		}
		var httpAnswers, httpWaits atomic.Int64
		for w := 0; w < httpReq; w++ {
			wg.Add(1)
			go func(w int) {
				defer wg.Done()
				for i := 0; !stop.Load(); i++ {
					h := v.head("default")
					r := h + 1
					if (w+i)%4 == 3 {
						r = h
					}
					if r == 0 {
						continue
					}
					path := fmt.Sprintf("/%s/public/%d", c.HashHex, r)
					if (w+i)%2 == 0 {
						path = fmt.Sprintf("/public/%d", r)
					}
					code, body := v.httpGet(path, 2*time.Second)
					if code/100 != 2 {
						time.Sleep(time.Millisecond)
						continue
					}
					httpAnswers.Add(1)
					if r == h+1 {
						httpWaits.Add(1)
					}
					var got struct {
						Round     uint64 `json:"round"`
						Signature string `json:"signature"`
						Previous  string `json:"previous_signature"`
					}
					if err := json.Unmarshal([]byte(body), &got); err != nil {
						report("C01/http-2xx-without-beacon", fmt.Sprintf("GET %s -> %d with a body that is not a beacon (%d bytes: %q); head before the request %d", path, code, len(body), trunc(body, 60), h))
						continue
					}
					if got.Round != r {
						report("C01/http-answer-for-other-round", fmt.Sprintf("GET %s -> %d with the beacon of round %d", path, code, got.Round))
						continue
					}
					sig, _ := hex.DecodeString(got.Signature)
					pv, _ := hex.DecodeString(got.Previous)
					if err := fx.VerifyRef(sch, pk, got.Round, sig, pv); err != nil {
						report("C01/http-beacon-does-not-verify", fmt.Sprintf("GET %s -> beacon of round %d does not verify: %v", path, got.Round, err))
					}
				}
			}(w)
		}
		// syncBurst stores k genuine beacons back to back, the way a catch-up sync does after an outage (the harness owns the key
		// and plays the honest peer; the beacons go through the node's own store stack, so every stream and waiter is notified)
		syncBurst := func(k int) {
			v.dd.state.RLock()
			bp := v.dd.beaconProcesses["default"]
			v.dd.state.RUnlock()
			last, err := bp.beacon.Store().Last(context.Background())
			if err != nil {
				return
			}
			prev := last.Signature
			var bs []*common.Beacon
			for r := last.Round + 1; r <= last.Round+uint64(k); r++ {
				p := prev
				if !fx.Chained(scheme) {
					p = nil
				}
				sig := c.Net.Sign(r, p)
				bs = append(bs, &common.Beacon{Round: r, Signature: sig, PreviousSig: prev})
				prev = sig
			}
			for _, b := range bs {
				if err := bp.beacon.Store().Put(context.Background(), b); err != nil {
					return
				}
			}
			v.clock.Advance(time.Duration(k) * v.period)
			syncBursts.Add(1)
		}
		for i := 0; i < nticks; i++ {
			if withSync && bursts[i] == 3 {
				syncBurst(3 + gaps[i]%4)
				time.Sleep(5 * time.Millisecond)
				continue
			}
			for b := 0; b < bursts[i]; b++ {
				v.tick("default")
				if gaps[i] > 0 {
					time.Sleep(time.Duration(gaps[i]) * time.Millisecond)
				}
			}
			time.Sleep(2 * time.Millisecond)
		}
		stop.Store(true)
		// release the waiters
		done := make(chan struct{})
		go func() { wg.Wait(); close(done) }()
		for k := 0; k < 40; k++ {
			select {
			case <-done:
				k = 1000
			case <-time.After(100 * time.Millisecond):
				v.tick("default")
			}
		}
		select {
		case <-done:
		case <-time.After(6 * time.Second):
			rt.Fatalf("harness: requesters did not finish (%s)", desc)
		}
		seen := map[string]bool{}
		for _, x := range viol {
			var key, detail string
			for i := 0; i < len(x); i++ {
				if x[i] == 0 {
					key, detail = x[:i], x[i+1:]
					break
				}
			}
			if seen[key] {
				continue
			}
			seen[key] = true
			rec.Violation(rt, key, detail+" || case: "+desc, map[string]any{"case": desc})
		}
		rec.LabelN("publicrand/sync-bursts", syncBursts.Load())
		rec.LabelN("publicrand/http-2xx-answers", httpAnswers.Load())
		rec.LabelN("publicrand/http-next-round-answers", httpWaits.Load())
		rec.LabelN("publicrand/answers", answers.Load())
		rec.LabelN("publicrand/next-round-waits-answered", waited.Load())
		rec.LabelN("publicrand/next-round-answered-while-head-moved-on", raced.Load())
		rec.Case(desc, waited.Load() > 0, "publicrand", "scheme/"+scheme, fmt.Sprintf("storage/%s", storage))
	})
}
