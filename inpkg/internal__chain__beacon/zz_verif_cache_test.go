package beacon

import (
	"encoding/binary"
	"fmt"
	"sort"
	"strings"
	"testing"

	"pgregory.net/rapid"

	"github.com/drand/drand/v2/common/testlogger"
	"github.com/drand/drand/v2/crypto"
	stats "github.com/drand/drand/v2/internal/verifstats"
	"github.com/drand/drand/v2/protobuf/drand"
)

var fakeSigLen = 2 + 96

func fakePartial(idx int, round uint64, prev []byte) *drand.PartialBeaconPacket {
	sig := make([]byte, fakeSigLen)
	binary.BigEndian.PutUint16(sig, uint16(idx))
	binary.BigEndian.PutUint64(sig[2:], round)
	return &drand.PartialBeaconPacket{Round: round, PreviousSignature: prev, PartialSig: sig}
}

// snapshot of which indices are present in which entry
func cacheSnapshot(c *partialCache) map[string]map[int]bool {
	out := map[string]map[int]bool{}
	for id, rc := range c.rounds {
		m := map[int]bool{}
		for idx := range rc.sigs {
			m[idx] = true
		}
		out[id] = m
	}
	return out
}

// TestVerifC12PartialCache: floods by some members never evict what other members sent, and the cache stays bounded per member.
func TestVerifC12PartialCache(t *testing.T) {
	rec := stats.Open(t, "C12")
	sch, _ := crypto.GetSchemeFromEnv()
	fakeSigLen = 2 + sch.SigGroup.PointLen()
	if idx, err := sch.ThresholdScheme.IndexOf(fakePartial(3, 1, nil).PartialSig); err != nil || idx != 3 {
		t.Fatalf("harness: fake partial not parsed: %v %d", err, idx)
	}
	l := testlogger.New(t)
	_ = l
	rapid.Check(t, func(rt *rapid.T) {
		n := rapid.IntRange(3, 7).Draw(rt, "n")
		c := newPartialCache(quietLogger{}, sch)
		nprev := rapid.SampledFrom([]int{1, 3, 1000}).Draw(rt, "prevPool")
		window := uint64(rapid.IntRange(1, 6).Draw(rt, "window"))
		base := uint64(rapid.IntRange(1, 50).Draw(rt, "base"))
		var hist []string
		floods := map[int]int{}
		others := false
		maxPer := map[int]int{}
		rt.Repeat(map[string]func(*rapid.T){
			"append": func(t *rapid.T) {
				idx := rapid.IntRange(0, n-1).Draw(t, "idx")
				round := base + uint64(rapid.IntRange(0, int(window)-1).Draw(t, "round"))
				prev := []byte(fmt.Sprintf("prev-%d", rapid.IntRange(0, nprev-1).Draw(t, "prev")))
				before := cacheSnapshot(c)
				err := c.Append(fakePartial(idx, round, prev))
				after := cacheSnapshot(c)
				hist = append(hist, fmt.Sprintf("a(%d,%d,%s)", idx, round, prev[5:]))
				checkOthersKept(rt, rec, before, after, idx, hist, "Append")
				_ = err
				others = others || len(floods) > 0 && floods[idx] == 0
			},
			"flood": func(t *rapid.T) {
				// one member signs many distinct (round, previous signature) pairs
				idx := rapid.IntRange(0, n-1).Draw(t, "idx")
				k := rapid.IntRange(MaxPartialsPerNode-5, 3*MaxPartialsPerNode).Draw(t, "count")
				hist = append(hist, fmt.Sprintf("flood(%d,%d)", idx, k))
				for i := 0; i < k; i++ {
					round := base + uint64(i)%window
					prev := []byte(fmt.Sprintf("flood-%d-%d-%d", idx, floods[idx], i))
					before := cacheSnapshot(c)
					_ = c.Append(fakePartial(idx, round, prev))
					after := cacheSnapshot(c)
					checkOthersKept(rt, rec, before, after, idx, hist, "Append(flood)")
				}
				floods[idx]++
			},
			"flush": func(t *rapid.T) {
				r := base + uint64(rapid.IntRange(0, int(window)).Draw(t, "upto")) - 1
				c.FlushRounds(r)
				hist = append(hist, fmt.Sprintf("flush(%d)", r))
				for id, rc := range c.rounds {
					if rc.round <= r {
						rec.Violation(rt, "C12/flush-leaves-entry", fmt.Sprintf("FlushRounds(%d) left the entry of round %d (%q) || %s", r, rc.round, id, strings.Join(tailS(hist), " ")), nil)
					}
				}
			},
			"": func(t *rapid.T) {
				// bounds: memory per signer is independent of the length of the flood
				per := map[int]int{}
				for _, rc := range c.rounds {
					for idx := range rc.sigs {
						per[idx]++
					}
				}
				for idx, k := range per {
					if k > maxPer[idx] {
						maxPer[idx] = k
					}
					// a signer creates at most MaxPartialsPerNode entries of its own and may join the entries the other members created:
					// n*MaxPartialsPerNode is the weakest bound that still makes memory independent of the length of a flood
					if k > n*MaxPartialsPerNode {
						rec.Violation(rt, "C12/cache-unbounded-per-signer", fmt.Sprintf("signer %d has %d cached partials (bound %d) || %s", idx, k, n*MaxPartialsPerNode, strings.Join(tailS(hist), " ")), nil)
					}
				}
				if len(c.rounds) > n*(MaxPartialsPerNode+1) {
					rec.Violation(rt, "C12/cache-unbounded-entries", fmt.Sprintf("%d round entries for %d members (bound %d) || %s", len(c.rounds), n, n*MaxPartialsPerNode, strings.Join(tailS(hist), " ")), nil)
				}
				for idx, ids := range c.rcvd {
					if len(ids) > 3*MaxPartialsPerNode {
						rec.Violation(rt, "C12/cache-bookkeeping-unbounded", fmt.Sprintf("bookkeeping list of signer %d has %d ids || %s", idx, len(ids), strings.Join(tailS(hist), " ")), nil)
					}
				}
			},
		})
		flooded := 0
		for _, k := range floods {
			flooded += k
		}
		var mp []string
		for idx, k := range maxPer {
			mp = append(mp, fmt.Sprintf("%d:%d", idx, k))
		}
		sort.Strings(mp)
		rec.Case(fmt.Sprintf("n=%d prevPool=%d window=%d :: %s", n, nprev, window, strings.Join(hist, " ")), flooded > 0 && len(maxPer) > 1, "partial-cache", fmt.Sprintf("floods=%d", flooded))
	})
}

type fataler interface {
	Helper()
	Fatalf(string, ...any)
}

func checkOthersKept(rt fataler, rec *stats.Rec, before, after map[string]map[int]bool, appender int, hist []string, op string) {
	for id, m := range before {
		for idx := range m {
			if idx == appender {
				continue
			}
			if !after[id][idx] {
				rec.Violation(rt, "C12/flood-evicts-other-member", fmt.Sprintf("%s by signer %d removed the partial of signer %d from entry %q || %s", op, appender, idx, id, strings.Join(tailS(hist), " ")), nil)
			}
		}
	}
}

func tailS(h []string) []string {
	if len(h) > 30 {
		return h[len(h)-30:]
	}
	return h
}
