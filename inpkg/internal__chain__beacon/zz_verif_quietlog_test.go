package beacon

import dlog "github.com/drand/drand/v2/common/log"

// quietLogger drops everything (floods would otherwise print a line per eviction).
type quietLogger struct{}

func (quietLogger) Info(...interface{})           {}
func (quietLogger) Debug(...interface{})          {}
func (quietLogger) Warn(...interface{})           {}
func (quietLogger) Error(...interface{})          {}
func (quietLogger) Fatal(...interface{})          {}
func (quietLogger) Panic(...interface{})          {}
func (quietLogger) Infow(string, ...interface{})  {}
func (quietLogger) Debugw(string, ...interface{}) {}
func (quietLogger) Warnw(string, ...interface{})  {}
func (quietLogger) Errorw(string, ...interface{}) {}
func (quietLogger) Fatalw(string, ...interface{}) {}
func (quietLogger) Panicw(string, ...interface{}) {}
func (q quietLogger) With(...interface{}) dlog.Logger { return q }
func (q quietLogger) Named(string) dlog.Logger        { return q }
func (quietLogger) Name() string                      { return "" }
func (q quietLogger) AddCallerSkip(int) dlog.Logger   { return q }
