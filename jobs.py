"""Job table: property id -> list of test jobs (see ./check).

job keys: name, mode ('harness' nested module | 'inpkg' overlay into /repo), pkg, run (go test -run regexp),
          quick / thorough: {shards, checks, timeout, env}, race, crash_is_violation
"""


def H(name, pkg, run, quick, thorough=None, **kw):
    d = {"name": name, "mode": "harness", "pkg": pkg, "run": run, "quick": quick, "thorough": thorough or quick}
    d.update(kw)
    return d


def I(name, pkg, run, quick, thorough=None, **kw):
    d = {"name": name, "mode": "inpkg", "pkg": pkg, "run": run, "quick": quick, "thorough": thorough or quick}
    d.update(kw)
    return d


JOBS = {
    "C16": [
        H("grid", "pure", "^TestC16Grid$", {"shards": 1, "checks": 1, "timeout": 300}),
        H("instant", "pure", "^TestC16Instant$", {"shards": 4, "checks": 60000, "timeout": 600}, {"shards": 14, "checks": 1500000, "timeout": 3000}),
        H("rounds", "pure", "^TestC16Rounds$", {"shards": 4, "checks": 60000, "timeout": 600}, {"shards": 14, "checks": 1500000, "timeout": 3000}),
    ],
}

JOBS["C17"] = [
    H("chainhash", "pure", "^TestC17ChainHash$", {"shards": 6, "checks": 1500, "timeout": 900}, {"shards": 14, "checks": 40000, "timeout": 3400}),
    H("grouphash", "pure", "^TestC17GroupHash$", {"shards": 6, "checks": 1500, "timeout": 900}, {"shards": 14, "checks": 40000, "timeout": 3400}),
]
JOBS["C20"] = [
    H("fieldguard", "pure", "^TestC20FieldGuard$", {"shards": 1, "checks": 1, "timeout": 120}),
    H("group", "pure", "^TestC20Group$", {"shards": 5, "checks": 1200, "timeout": 900}, {"shards": 14, "checks": 15000, "timeout": 3400}),
    H("reject", "pure", "^TestC20Reject$", {"shards": 3, "checks": 1500, "timeout": 900}, {"shards": 8, "checks": 30000, "timeout": 3400}),
    H("beacon", "pure", "^TestC20Beacon$", {"shards": 2, "checks": 20000, "timeout": 900}, {"shards": 6, "checks": 500000, "timeout": 3400}),
    H("dbstate", "pure", "^TestC20DBState$", {"shards": 4, "checks": 1000, "timeout": 900}, {"shards": 14, "checks": 10000, "timeout": 3400}),
]

JOBS["C18"] = [
    H("exhaustive", "store", "^TestC18Exhaustive$", {"shards": 10, "checks": 1, "timeout": 900, "env": {"VERIF_C18_L": 4}}, {"shards": 10, "checks": 1, "timeout": 3400, "env": {"VERIF_C18_L": 5}}),
    H("random", "store", "^TestC18Random$", {"shards": 8, "checks": 2500, "timeout": 900}, {"shards": 14, "checks": 15000, "timeout": 3400}),
]

JOBS["C01"] = [
    H("machine", "beaconnet", "^TestMachine$", {"shards": 12, "checks": 25, "timeout": 900, "env": {"VERIF_PROP": "C01"}}, {"shards": 14, "checks": 400, "timeout": 3400, "env": {"VERIF_PROP": "C01"}}),
    H("http", "httpsrv", "^TestC01HTTP$", {"shards": 6, "checks": 12, "timeout": 1200}, {"shards": 14, "checks": 300, "timeout": 3400}),
    I("publicrand", "internal/core", "^TestVerifC01PublicRand$", {"shards": 4, "checks": 3, "timeout": 1200}, {"shards": 8, "checks": 40, "timeout": 3400}),
]
JOBS["C02"] = [
    H("machine", "beaconnet", "^TestMachine$", {"shards": 12, "checks": 25, "timeout": 900, "env": {"VERIF_PROP": "C02"}}, {"shards": 14, "checks": 400, "timeout": 3400, "env": {"VERIF_PROP": "C02"}}),
]
JOBS["C04"] = [
    H("machine", "beaconnet", "^TestMachine$", {"shards": 12, "checks": 25, "timeout": 900, "env": {"VERIF_PROP": "C04"}}, {"shards": 14, "checks": 400, "timeout": 3400, "env": {"VERIF_PROP": "C04"}}),
]

JOBS["C03"] = [
    H("threshold", "beaconnet", "^TestC03Threshold$", {"shards": 12, "checks": 30, "timeout": 900}, {"shards": 14, "checks": 500, "timeout": 3400}),
]

JOBS["C05"] = [
    H("liveness", "beaconnet", "^TestC05Liveness$", {"shards": 12, "checks": 12, "timeout": 1200}, {"shards": 14, "checks": 250, "timeout": 3400}),
]

JOBS["C10"] = [
    H("knownreplay", "beaconnet", "^TestC10KnownFindingReplay$", {"shards": 1, "checks": 1, "timeout": 300}),
    H("sync", "beaconnet", "^TestC10Sync$", {"shards": 7, "checks": 25, "timeout": 1200}, {"shards": 14, "checks": 400, "timeout": 3400}),
    H("checkrepair", "beaconnet", "^TestC10CheckRepair$", {"shards": 7, "checks": 40, "timeout": 1200}, {"shards": 14, "checks": 600, "timeout": 3400}),
    I("follow", "internal/core", "^TestVerifC10Follow$", {"shards": 10, "checks": 6, "timeout": 1500}, {"shards": 14, "checks": 40, "timeout": 3400}),
]

JOBS["C11"] = [
    H("stream", "streamgate", "^TestC11Stream$", {"shards": 12, "checks": 35, "timeout": 1200}, {"shards": 14, "checks": 3000, "timeout": 3400}),
]

JOBS["C12"] = [
    H("consumers", "streamgate", "^TestC12Consumers$", {"shards": 10, "checks": 10, "timeout": 1200}, {"shards": 14, "checks": 150, "timeout": 3400}),
    I("partialcache", "internal/chain/beacon", "^TestVerifC12PartialCache$", {"shards": 4, "checks": 60, "timeout": 1200}, {"shards": 14, "checks": 1500, "timeout": 3400}),
    H("callbackleak", "streamgate", "^TestC12CallbackLeak$", {"shards": 6, "checks": 40, "timeout": 1200}, {"shards": 14, "checks": 600, "timeout": 3400}),
]

JOBS["C06"] = [
    H("knownreplay", "dkgnet", "^TestC06KnownFindingReplay$", {"shards": 1, "checks": 1, "timeout": 900}),
    H("firstdkg", "dkgnet", "^TestC06FirstDKG$", {"shards": 8, "checks": 5, "timeout": 1500}, {"shards": 14, "checks": 120, "timeout": 3400}),
    H("reshare", "dkgnet", "^TestC06Reshare$", {"shards": 8, "checks": 5, "timeout": 1500}, {"shards": 14, "checks": 120, "timeout": 3400}),
]

JOBS["C09"] = [
    H("knownreplay", "dkgnet", "^TestC09KnownFindingReplay$", {"shards": 1, "checks": 1, "timeout": 300}),
    H("proposal", "dkgnet", "^TestC09Proposal$", {"shards": 6, "checks": 60, "timeout": 1200}, {"shards": 14, "checks": 800, "timeout": 3400}),
    H("followups", "dkgnet", "^TestC09FollowUps$", {"shards": 6, "checks": 50, "timeout": 1200}, {"shards": 14, "checks": 700, "timeout": 3400}),
]

JOBS["C08"] = [
    H("knownreplay", "dkgnet", "^TestC08KnownFindingReplay$", {"shards": 1, "checks": 1, "timeout": 600}),
    H("machine", "dkgnet", "^TestC08StateMachine$", {"shards": 10, "checks": 8, "timeout": 1500}, {"shards": 14, "checks": 150, "timeout": 3400, "steps": 60}),
]

JOBS["C07"] = [
    H("continuity", "beaconnet", "^TestC07Continuity$", {"shards": 12, "checks": 12, "timeout": 1500}, {"shards": 14, "checks": 250, "timeout": 3400}),
    I("daemons", "internal/core", "^TestVerifC07Daemons$", {"shards": 6, "checks": 1, "timeout": 1500}, {"shards": 12, "checks": 6, "timeout": 3400}),
]

JOBS["C19"] = [
    I("routing", "internal/core", "^TestVerifC19Routing$", {"shards": 6, "checks": 4, "timeout": 1200}, {"shards": 14, "checks": 40, "timeout": 3400}),
]

JOBS["C14"] = [
    H("dkgservice", "dkgnet", "^TestC14DKGService$", {"shards": 6, "checks": 8, "timeout": 1500}, {"shards": 14, "checks": 150, "timeout": 3400}),
    I("daemon", "internal/core", "^TestVerifC14Requests$", {"shards": 8, "checks": 10, "timeout": 1500}, {"shards": 14, "checks": 200, "timeout": 3400}, crash_is_violation=True),
    H("partialflood", "beaconnet", "^TestC14PartialFlood$", {"shards": 6, "checks": 3, "timeout": 1500}, {"shards": 14, "checks": 60, "timeout": 3400}, crash_is_violation=True),
]

JOBS["C15"] = [
    H("dkgtraffic", "dkgnet", "^TestC15DKGTraffic$", {"shards": 6, "checks": 3, "timeout": 1500}, {"shards": 14, "checks": 60, "timeout": 3400}),
    I("daemon", "internal/core", "^TestVerifC15Daemon$", {"shards": 4, "checks": 4, "timeout": 1200}, {"shards": 14, "checks": 60, "timeout": 3400}),
    I("faultlogs", "internal/core", "^TestVerifC15FaultLogs$", {"shards": 6, "checks": 1, "timeout": 1500}, {"shards": 14, "checks": 8, "timeout": 3400}),
]

JOBS["C13"] = [
    I("crashpoints", "internal/core", "^TestVerifC13CrashPoints$", {"shards": 6, "checks": 1, "timeout": 1500}, {"shards": 12, "checks": 6, "timeout": 3400}),
]

LEVELS = {"C13": "fault_enumeration"}

_MACHINE = ("rapid state machine over a network of real beacon handlers: scheme in 5, n in 2..6, t in [n/2+1,n], back-end in {memdb (cap 2000 or 10), bolt trimmed, bolt untrimmed}, period 2..6 s; "
            "actions: tick, sub-period advance, burst of 2-6 periods, advance of a subset (skew/stall), realign, partition/heal, queue mode with generated delivery order and drops, duplicate mode, stop/restart (same or fresh store), "
            "forged partial injection (12 kinds incl. valid-for-clock+k), scripted lying sync peer (13 kinds), sync-stream tap. ")
RULES = {
    "C13": "three real daemons (in-package, loopback gRPC, bolt stores, file key stores, verif hooks on) run a script: first DKG through the control API, 4 rounds, (2/3 of the cases, always in shards 0-1 and whenever the completion record is the stalled operation) a resharing and the rounds across its transition. "
           "Drawn per case: scheme, threshold, which node is the node under test (leader or follower), and a schedule perturbation: one kind of persistence operation of that node (DKG completion record, DKG record, key file, chain Put, or none) starts 60/250 ms late so that whatever runs concurrently gets ahead (first case of shard k uses kind k). Every persistence point of that node (key.Save begin/created/end for group and share file, DKG store save/SaveFinished begin/end, chain Put begin/end; all persistence "
           "in the process serialised between begin and end by the hook) yields a crash image = copy of its folder; for every in-place file write two torn images (prefix of the new content) are synthesised. Every image is restarted: (a) a fresh daemon loads it without error or panic, "
           "(b) dkg.db decodes and its finished record is one whole epoch (Complete, group and share of one key) and a current record that says Complete is that same epoch, (c) group file and share file decode and are exactly the group and share of the epoch dkg.db records as completed (none if it records none), "
           "(d) the chain store scans gap-free from 0, every beacon verifies under the group key, and holds every round the node had served (handed to a client following its public randomness stream, or visible as its head) by the time the snapshot was complete, (e) after three periods of clock time no fatal event. "
           "All images of a case are examined (fault enumeration over the persistence points of the script); non-trivial: every image; distinct by case + image index + crash window.",
    "C15": "(dkg) real dkg.Process instances run a key generation (n in 2..4, 5 schemes) and optionally a resharing on the in-memory bus; every gossip and bundle message (marshalled protobuf), every DKG status answer and every log line at debug level is scanned, and so are the error texts answered to remote callers: for the protocol's own messages, for two forged twins of every gossip packet (signature bit-flipped, sender swapped) sent by the harness just before the genuine one, and for refused operator commands. (faults) three real daemons run a DKG / resharing while on one of them the share-file or group-file path is occupied by a directory, so that storing the DKG output fails: all log lines, command errors and DKG status answers are scanned for the long-term scalars and every share recorded in a dkg.db. "
           "(daemon) a real two-chain daemon (bolt or memdb, process umask 0 or 022) produces beacons; the marshalled answers of PublicRand, ChainInfo, GetIdentity, PublicKey, GroupFile, Status, DKGStatus, ListBeaconIDs, the first SyncChain item, the database backup, "
           "the HTTP bodies of /{hash}/info|public/latest|public/1|health and /chains, and every log line are scanned; every file under the daemon's folder is scanned and those in which a secret is found must have no group/other permission bits. "
           "Secrets = each node's long-term scalar and each epoch's share value, searched raw, byte-reversed, lower/upper hex, base64 std/url with and without padding, the scalar's String() and the decimal byte list. Positive control: the scanner must find the secrets in dkg.db, "
           "the private key file and the share file. Non-trivial: DKG runs that exchanged deal bundles; every daemon case. Distinct by configuration + key seed (each case scans hundreds of artefacts, counted as artefacts-scanned).",
    "C14": "(daemon depth) a real DrandDaemon with two running chains and one ungrouped id, over real loopback gRPC with its real interceptors and through its real HTTP handler: sequences of 1-5 requests; request messages for every RPC of the peer-facing listener "
           "(Protocol.GetIdentity/PartialBeacon/SyncChain/Status, Public.PublicRand/PublicRandStream/ChainInfo/ListBeaconIDs, DKGPublic.Packet/BroadcastDKG) are built from the protobuf descriptors by reflection: every field independently absent / zero / typical / hostile "
           "(known and unknown ids and hashes, 0/1/47/48/49/96/98/65536-byte strings, valid partial / key / signature bytes optionally bit-flipped, 0, 1, head, head+1, 2^32, 2^64-1), nested messages nil / empty / filled, every oneof arm or none, lists of 0-3; half of the requests "
           "structurally complete with known ids so that they pass early validation; HTTP paths incl. malformed rounds and hashes. (service depth) real dkg.Process objects in states fresh / complete / mid-proposal / after an execution receive generated gossip and broadcast packets "
           "and floods of distinct bundles carrying a valid group-member signature, with the containment of the recovery interceptor. (flood depth) on a network of 3-5 real beacon handlers one member sends 95..450 correctly signed partials over distinct previous signatures (one round or the aggregated and the next round) to a victim before / between / after the honest partials of the round: 'sequences' long enough to cross the per-signer bounds of the partial cache; afterwards every node must store that round and the next three. Oracle: every request is answered (value or error) within its endpoint bound (5 s; next-round waits are released by advancing the fake clock), "
           "no fatal log event, afterwards valid probes succeed on every service (ChainInfo, PublicRand, GetIdentity, a DKG packet, an operator command, HTTP /info), a tick still produces the next beacon, and the DKG process shuts down. "
           "Non-trivial: at least one request reached a service implementation; distinct by the rendered request sequence.",
    "C19": "a real DrandDaemon (in-package) hosting 2-3 single-member chains with ids from {default, a, b}, each with its own key and a drawn scheme, optionally one loaded-but-ungrouped id, bolt or memdb storage; started from files written by the harness (migration path), "
           "fake clock, a few rounds produced. At every point of a drawn history (initial; Shutdown(id); LoadBeacon(id) again; Shutdown(default)) the full matrix is enumerated: beacon id in {nil metadata, absent, default, a, b, u, unknown} x chain hash in "
           "{absent, hash of each chain, unknown 32 bytes, 5 bytes, the bytes of \"default\"} x endpoint in {PublicRand, ChainInfo, GetIdentity, SyncChain, PublicRandStream, GroupFile} called on the daemon's service methods, plus HTTP (real handler) "
           "/{hash}/info|public/latest|public/1 for every chain, /info, /public/latest, /public/1, bad hashes, /chains. Oracle: a reference routing function written from the statement says which chain must answer or that the request must be refused; "
           "an answer is attributed by verifying its signature / chain hash / identity key / group hash under each chain's own key material. Non-trivial: every case; distinct by chain set + storage + history + key seed (each case covers ~600 matrix cells, counted as matrix-cells).",
    "C07": "(daemons) four real daemons (in-package, loopback gRPC, real DKG): epoch 1 among three, then a resharing in which the fourth joins (its beacon loaded at start-up or later over the control API with a request context that ends), optionally one old member is dead and replaced, threshold kept or raised (the first case of shard k is a fixed corner). Oracle: chain info identical before/after on every member; every live member of the new group completes the new epoch; with a threshold of them up the chain reaches transition+3 on every one; all stored beacons verify under the unchanged key. (handlers) a running network of real beacon handlers (scheme in 5, n0 in 3..5, t0 in range, 3 back-ends) is reshared by the harness playing internal/core's part: next epoch = fresh polynomial with the same secret, 0..n0-1 leavers, 0..2 joiners, "
           "new threshold in range, transition at round now+2..5; each remainer gets TransitionNewGroup at a drawn tick before the transition, joiners are started with NewHandler+Transition at a drawn tick, leavers keep running with their old shares or are stopped. "
           "Oracle: chain info (hash, key, genesis time/seed, period, scheme, id) identical before/after; C01 (every Put verifies) + C02 (append-only, gap-free, no fork) across rounds rT-3..rT+5; when >= t1 members of the new group hold the new share in time "
           "every member of the new group follows the clock across the transition (no halted round); afterwards a valid partial made with a share of the previous polynomial is refused by every switched member, and with everything queued an observer given exactly "
           "t1-1 new-epoch partials plus the leavers' old-share partials stores nothing (threshold oracle of C03 evaluated per node with the polynomial that node holds). Reshare identity through real DKG runs is checked in C06 (same key, same chain hash). "
           "Non-trivial: membership or threshold changed; distinct by configuration + reshare shape + switch schedule.",
    "C08": "rapid state machine over 5 real dkg.Process instances with real bolt dkg.db files (all Fresh, or 3 of them holding a completed epoch 1 written by the harness), ~30 steps (thorough 60): valid proposals built from the live membership "
           "(first epoch or reshare with drawn leavers/joiners/threshold), operator commands on arbitrary nodes (accept, reject, join with the right / no / a garbage group file, execute, abort), commands the protocol must refuse (threshold below minimum / above n, "
           "expired timeout, dropping a current member, unknown scheme), proposals signed with the real leader key but stale epoch / epoch+2 / bad threshold / expired / changed genesis time or seed / foreign beacon id delivered to every node, and in 1/3 of the cases "
           "real executions to completion (reaching epoch 2-3). Oracle after every step on every node: (from,to) of the current record is in the harness's own transition relation (terminal states leave through the last finished record; an execution may take 3 steps), "
           "a command refused by validation leaves both records byte-identical, the current epoch never decreases, the finished record only changes to a Complete record with group+share of a strictly larger epoch, every invalid proposal class is refused by every node able to "
           "detect it, and after an abort a valid proposal is accepted and stored by all recipients. Non-trivial: history with accepted and rejected steps that starts from a completed epoch or reaches epoch>=2 or retries after abort; distinct by full history.",
    "C09": "a resharing about to happen on real dkg.Process instances: 4-member epoch 1 (written by the harness), optional leaver, one joiner, one outsider key; the pristine packet of each type (proposal, accept, reject, execute, abort) is produced by "
           "the real sender and captured on the bus. Per case one victim (member / joiner / leaver / leader) and one derived packet: every single-field mutation of the terms (epoch, threshold, timeout, periods, scheme, genesis time/seed, beacon id, "
           "leader, participant address / key / signature, list membership and order) and of the metadata (address, beacon id, signature bits/length) keeping the signature; the same content re-signed by another member, the leaver, the joiner or an outsider "
           "while claiming the real sender; the leader's key replaced by the attacker's in the lists with the attacker signing; an accept in the name of a member that has rejected (after that rejection was heard); entitlement cases (member sends the leader's proposal / execute / abort in its own name, accept / reject for somebody else, by the joiner, by the leaver). "
           "Oracle: Packet returns an error, the victim's current+finished records are byte-identical (TOML), nothing is re-gossiped; afterwards the pristine packet is accepted by the same victim (anti-vacuity, and a replica of the signed message is "
           "validated against the pristine signature in every case). Non-trivial: every case; distinct by packet type, victim, forgery and key seed.",
    "C06": "real dkg.Process instances (real bolt dkg.db each) on an in-memory DKGClient bus. first DKG: scheme in 5, n in 1..7 (n=1 must be refused cleanly), t in [n/2+1,n], drawn permutation of the participant list handed to the leader, drawn leader, "
           "beacon period in {1,3,30} s. reshare: on top of a completed epoch written by the harness (its own polynomial): n0 in 2..6, 0..n0-t0 leavers, 0..3 joiners, new threshold in range, every list permuted, leader among the remainers. "
           "Delivery policy per case: per-message delay up to 5/40/150 ms (reordering), duplicates, one slow node (all its traffic +100/400/900 ms; first DKG with n-t >= 1 also: its own bundles 5 s late with 2 s phases, so that it misses the deal phase and the others complete without it), transient failure of gossip sends (retried by the sender); message loss of DKG bundles is not generated "
           "(outside the quantifier). Oracle over all finishers: field-wise equal groups + equal hash, threshold as proposed, share index = own entry in the group = rank of the public key (independent of listing order), g^share on the public polynomial "
           "(harness arithmetic), 6 random t-subsets recover a signature that verifies under the group key and t-1 do not, epoch 1: genesis seed = hash of the first group; reshare: same public key and chain hash, leavers keep their record; "
           "positive control: every member finishes. Non-trivial: n>=3 with a non-identity permutation or a perturbing delivery policy (first DKG); every reshare. Distinct by full case descriptor.",
    "C12": "(leak) clients come and go through the real SyncChain in every way a stream can end (failed send or disconnect in the catch-up scan, at the hand-over with a beacon stored in between, in the live phase; gates as in C11): after a stream has returned the store must never invoke its callback for a beacon stored later (a registration left behind = a worker goroutine and a queue for ever). (a) a beacon.NewCallbackStore over {trimmed bolt, untrimmed bolt, memdb ring} with 0-3 hostile consumers attached through the real SyncChain (Send blocks for ever / sleeps 2-20 ms / fails once / context cancelled mid-send), "
           "one healthy consumer and one internal callback; then M appends with M in 1..3*CallbackWorkerQueue, forced to 2*queue+2.. in 2/3 of the cases, optionally a re-connect of the stalled client's address half-way. Oracle: every Put and Last returns "
           "(bound 2 s, re-examined for 8 s more before it counts; normal < 5 ms), the healthy consumer and the internal callback receive all M beacons in order. (b) in-package rapid state machine on partialCache: appends by 3-7 signers over a "
           "round window with 1..1000 distinct previous signatures, floods of 95-300 distinct (round, previous signature) pairs by one signer, FlushRounds. Oracle after every step: no operation by signer i removes signer j's partial from any entry; "
           "partials per signer <= n*MaxPartialsPerNode, entries <= n*(MaxPartialsPerNode+1), bookkeeping list <= 3*MaxPartialsPerNode; FlushRounds(r) leaves no entry <= r. "
           "Non-trivial: hostile consumer present with M > queue; a flood with >= 2 signers present. Distinct by full case descriptor.",
    "C11": "a beacon.NewCallbackStore over {trimmed bolt, untrimmed bolt, memdb ring of 10 that is already full} holding rounds 0..H (H in 0..40) and up to 3 real beacon.SyncChain invocations (two of them from the same client address = reconnect) "
           "with start round in {0, lowest stored, middle, head, head+1, head+5}. Every cursor Seek/Next, every stream Send and the AddCallback call parks at a gate owned by the harness, so the interleaving of the scan, the hand-over "
           "to live delivery and up to 14 store appends is a rapid-generated sequence of {open, step k gates, fail a send, put, cancel, re-connect of a live client while a send to its first connection is pending, completion/failure of the pending send of a stream that has already returned}. Oracle: the sequence of rounds handed to Send (up to the first failed send) is start, start+1, ... "
           "without skip or repeat, each equal to the stored beacon; at the end every live stream, run to quiescence, has delivered up to the store head; a start beyond the head is refused. "
           "Non-trivial: a put while some stream was still in its catch-up phase, >= 2 concurrent streams, or a reconnect; distinct by back-end + H + action history.",
    "C10": "follow: a daemon holding only a key pair follows a chain (BeaconProcess.StartFollowChain, in-package, scripted peers behind the gateway): 1-4 peers drawn from {honest & ahead, honest but behind, refuses, silent, closes after k, bad signature / relabelled round / other chain's signature at position k}, some serving ANOTHER chain's info, honest ones optionally unavailable for their first 1-2 calls, target = peer head or none (keep following: the honest peers get 3 more rounds), pinned hash optionally matching nobody. Oracle: the follower's store is consecutive from 0 and verifies under the pinned chain; with an honest-ahead peer it reaches the target / keeps following (bounded real-time wait, retry pause = 1 s); with a hash nobody serves nothing is stored. sync: one real node (scheme in 5, 3 back-ends, chained/unchained) at height h in {0,1,3,8} with a clock h+{1,2,5,12} rounds ahead catches up (Handler.Catchup + tick-triggered re-requests) from 1-5 scripted peers, each drawn from "
           "{honest & ahead, honest but behind, refuses, silent, stalls after k, closes after k, bad signature, relabelled round, skipped round, repeated round, swapped order, group-signed wrong previous signature, foreign beacon id, "
           "truncated signature, other chain's key} lying at position 0..4. Oracle: every Put verifies (own digest + key), Put history consecutive, never beyond what an honest peer holds; with an honest-ahead peer the store reaches the goal "
           "within 80 periods of fake time (re-tried with a longer quiescence window before it counts). check/repair: a node holding a verified chain of 6-40 rounds; 1-5 rounds of the BASE store deleted / overwritten with garbage / with another "
           "round's signature / with a wrong stored previous signature; ValidateChain(upTo in {L, L/2, L+5, 1, 3}) must report exactly the model set (per back-end: trimmed+chained also the successor); CorrectChain with scripted peers "
           "(incl. silent / stalling ones while the node's clock advances) must restore exactly those, write only verifying beacons, fail when nobody can serve. Non-trivial: peer list mixing hostile and honest-ahead peers, or >= 1 corrupted round; distinct by full case descriptor.",
    "C05": "fault scripts over networks of real beacon handlers (scheme in 5, n in 3..6, t in [n/2+1,n], 3 back-ends, period 2..6 s, catch-up 1..period-1 s): healthy prefix of 0-3 rounds, 1-5 fault periods each a partition "
           "(possibly leaving no side with t nodes), node stops, per-link loss or idle, then a healed phase with >= t nodes up (stopped nodes restarted with their old or an empty store, some staying down). "
           "Oracle (bounded liveness in fake time, 1 s steps): all up nodes reach head == clock round within g*c*p/(p-c) + 6p (+4p when nodes were restarted, +12p when one peer's sync service goes silent; g = rounds missing at heal), the chain has no hole / fork (C02 scan), the next 3 periods each add exactly one round "
           "on every up node, every restarted node emits a partial again. A budget miss is re-run once; only a repeat is a violation (else counted inconclusive). Non-trivial: outage of >= 2 rounds or a restart+rejoin; distinct by full script.",
    "C03": "networks of real beacon handlers with sync disabled and every link queued (scheme in 5, n in 2..6, t in [n/2+1,n], 0..n-1 members down = corrupted, 2-5 rounds); per round and observer the harness delivers the "
           "partials of a drawn subset of honest members (so that own + delivered is t-2, t-1 or t), valid partials made on behalf of corrupted members, and junk (wrong share, other round, other/junk previous signature, "
           "non-member index, receiver's own index, truncated, bit-flipped, empty, replay of a counted member) in a drawn order. Oracle: a node's first Put of round R requires >= t distinct members whose partial for exactly "
           "(R, previous signature) the harness verified independently and whose delivery started before the Put (own partial counts if emitted by then); with fewer than t contributing members no node ever stores a round; "
           "positive control: >= t delivered => beacon appears. Non-trivial: some observer/round had exactly t-1 valid partials with junk present, or fewer than t members were up; distinct by configuration + delivery script.",
    "C01": "(http) the real handler/http server registered with a model client (chain signed by the harness) whose watch stream items are drawn (next round, skip of 1-2 rounds, repeat, older, stream restart), interleaved with 0-3 requests waiting for the round after the latest "
           "and direct requests for head, head-3, head+1, latest: a 2xx answer is the JSON of the beacon of exactly the requested round, verifying under the chain key, randomness = sha256(signature). (daemon) a real single-member daemon produces rounds on a fake clock (single ticks, bursts of 2-3 "
           "with drawn real-time gaps, and in half of the cases bursts of 3-6 genuine beacons stored back to back the way a catch-up sync does) while 4/16/48 concurrent requesters call PublicRand for head+1 (the waiter path), head, latest, round 1 and head+2 and HTTP requesters ask its real HTTP handler "
           "for head+1 / head: a successful answer for round r carries round r, verifies under the chain key (own digest), randomness = sha256(signature). (network) " + _MACHINE + "Oracle: every successful base-store Put of round>=1 and every streamed beacon verifies under the harness's own digest + group key for exactly that round/previous signature. "
           "Non-trivial: a hostile item (forged partial or hostile sync stream) reached a node and beacons were stored afterwards in the case; distinct by configuration + full action history.",
    "C02": _MACHINE + "Oracle after every step: Put history appends only head+1 or repeats an identical value; store scan is hole-free from 0 (bolt) with prev(r)=sig(r-1) on chained; nodes byte-identical per round. "
           "Non-trivial: case with a restart, a heal after partition, reordered delivery, or a hostile sync stream; distinct by configuration + full action history.",
    "C04": _MACHINE + "Oracle: each PartialBeacon call leaving a node is stamped with that node's clock: clock >= genesis+(round-1)*period (harness formula); valid partials for clock round+2/+3/+10 must be refused. "
           "Non-trivial: case with a burst, skew/stall, stall release, restart or a future-partial injection; distinct by configuration + full action history.",
    "C18": "exhaustive part: for each back-end (bolt trimmed, trimmed+previous-required, untrimmed, untrimmed+previous-required, memdb ring of 10 empty, ring of 10 pre-filled to capacity) every Put/Del sequence "
           "over a 4-round alphabet ({0,1,2,3}; ring pre-filled: {20..23}; bolt back-ends additionally {255,256,257,65536}, whose numeric order differs from the byte order of any non-big-endian key) up to length L (quick 4, thorough 5), each followed by every observation: Get of each round and a neighbour, Last, Len and every cursor session body of length <=3 over "
           "{First, Next, Last, Seek(r)} (399 bodies); random part: rapid state machine of 100s of ops over rounds base+0..40 (base in {0, 240, 65520, 2^32-20, 2^56-20}: windows across the byte boundaries of the key encoding) (append, put with gaps / re-put, delete, get, last, len, reopen (bolt), "
           "cursor sessions of <=8 steps incl. Put/Del inside the open session for memdb, full First/Next scans). Oracle: reference sorted map (bolt: put replaces; ring: put keeps, only the 10 largest remain; "
           "trimmed: previous signature = stored signature of round-1 or the read fails). Non-trivial: sequence with a delete, re-put or gap (exhaustive) / a cursor after a mutation or a mutation inside a session (random); "
           "distinct by back-end + full operation sequence.",
    "C17": "rapid-generated groups over the 5 schemes (1..10 nodes, dense or sparse indices, threshold in [n/2+1,n], with/without distributed key, "
           "transition time, id in {'', default, custom}, period up to 2^31 s, genesis seed computed / 32 random bytes / other lengths) and the chain Info derived from them; "
           "per case one drawn single-field perturbation (chain hash: period±1s, genesis±1, key, seed bit/extend/truncate, id; group hash: node key, index, index swap, threshold, genesis, "
           "transition, dist key, id; controls: period, catch-up, address, signature) plus one drawn permutation of the node list. Oracle: hash equal on every encoding path "
           "(proto, JSON, proto-JSON, group TOML, group proto), differs under each identified-field perturbation, unchanged by membership/threshold/transition; "
           "UnmarshalJSON rejects a document whose chain_hash does not match, including chain_hash values that are not well-formed hex. Non-trivial: chain-hash cases always; group-hash cases with >=2 nodes. Distinct by (group spec, perturbation, permutation).",
    "C20": "rapid-generated values over the 5 schemes: groups (1..10 nodes, optional dist key / transition / seed kinds / ids, whole-second and sub-second durations), key pairs, identities, shares, chain infos, "
           "beacons with arbitrary byte strings (nil/empty prev), DKG records in all 12 statuses with/without final group+share, participants with nil/empty/non-empty signatures, nanosecond times. "
           "Paths: TOML through real files (key.Save/Load), the real bolt dkg.db (SaveCurrent/SaveFinished, close, reopen, Get*), protobuf, JSON. Oracle: field-wise semantic equality written in the harness "
           "+ equal Group/Info/Identity hashes + encode fixpoint; negative generator: threshold in {0, min-1, n+1, n+k, 2^30}, scheme unknown / wrong case must be refused by TOML and protobuf decoders. "
           "Non-trivial: groups with >=2 nodes and an optional part, non-empty beacons, records with a final group or participants, every reject case. Distinct by full descriptor.",
    "C16": "grid: every (period 1..12 s, genesis in {0,1,7,100}, offset 0..200) cell and rounds 1..250, enumerated completely; "
           "random: period uniform/log-uniform in [1,2^32-1] s, genesis in [0,2^32], offset uniform/log-uniform in [0,2^50]; "
           "boundary-directed instants T(r)-1,T(r),T(r)+1; 64-bit rounds uniform, 2^k±1, adjacent to the overflow guard and to the reserved time buffer. "
           "Oracle: math/big reference. Non-trivial = grid cell, boundary-directed instant, any instant with period>1, or a non-uniform round class; "
           "distinct by (period, genesis, instant|round).",
}

ASSUMPTIONS = {
    "C13": ["bbolt commits are atomic (images are taken before and after each transaction, not inside)", "no reordering of writes below the file system", "resumption is checked as 'loads, serves its chain and keeps running'; rejoining a live network after restart is C05's subject",
            "leaving the group (key.Delete) is hooked but not part of the script"],
    "C15": ["a leak would use one of the searched encodings of the whole scalar (partial leaks / side channels are out of reach)", "encrypted deals are trusted to be encrypted (ECIES of kyber)"],
    "C14": ["resource exhaustion by volume is C12's subject", "TLS and reverse proxies are not in the loop", "native coverage-guided fuzz targets were not built (structured generation from the descriptors instead)"],
    "C19": ["service methods are called in-process (the gRPC transport adds no routing); HTTP goes through the daemon's real handler", "single-member groups (the routing layer does not depend on group size)", "/health excluded: it compares with the wall clock"],
    "C07": ["the harness re-implements core's orchestration (transitionToNext / joinNetwork / leaveNetwork): defects inside those functions are outside this check", "new shares are handed over before round rT-1 is stored (the daemon does so ~10 rounds ahead)",
            "old shares stay shares of the same secret: a threshold of leavers that keeps running can still sign (inherent to resharing, not asserted)", "failed / aborted reshare leaving the old group producing is covered at the DKG level by C08 (records untouched), not with beacons"],
    "C08": ["time-outs (TimedOut state) are not generated: the code has no path into that state besides the operator", "after a partial completion (some nodes finished, some not) the model stops following the history", "nodes in state Left are not proposed again (listed known finding)"],
    "C09": ["a fresh joiner may trust member keys supplied in the packet (as the statement allows): those forgeries are recorded as exempt", "the signed-message replica in the harness is validated against the code under test in every case"],
    "C06": ["kyber's Pedersen DKG is sound under reliable (possibly slow, reordering, duplicating) delivery", "DKG randomness comes from crypto/rand: cases are reproducible in structure, not in key bytes", "phase timeout 2 s, kick-off grace 250 ms (real time)"],
    "C12": ["consumer stalls are modelled at SyncStream.Send (HTTP/2 flow control and grpc.MaxConcurrentStreams not involved)", "appends are paced so that a consumer that keeps up is at most 20 rounds behind (a beacon chain appends once per period)", "process RSS not measured; bounds are on the cache structures"],
    "C11": ["streams are driven at the SyncChain/SyncStream interface (gRPC transport not involved)", "for the ring back-end the generator does not evict a round a scanning stream has not sent yet (it no longer exists)"],
    "C10": ["fewer than t colluding members (group-signed forgeries are out of scope for repair)", "follow mode through the control API is not exercised by this check (participant mode + check/repair only)", "in-memory back-end: only missing rounds are in scope for repair (the ring keeps old values by design)"],
    "C05": ["liveness is checked as bounded liveness in fake time, not unbounded eventually", "catch-up period < period (with equality a gap can never close by construction)", "in-memory network: gRPC back-off not modelled"],
    "C03": ["adversary holds fewer than t shares", "kyber VerifyPartial is the harness's validity criterion"],
    "C18": ["bbolt itself is correct", "postgres back-end not reachable offline (not covered)", "signatures are non-empty byte strings"],
    "C17": ["kyber point marshalling is injective", "sha256 / blake2b collisions are not produced by single-field changes"],
    "C20": ["values are those the system can produce (scheme set, threshold in range, non-zero genesis and period for the protobuf path)", "nil and empty byte strings are the same value"],
    "C16": ["math/big arithmetic is correct", "period is a whole number of seconds (as the property states)"],
}
