"""Job table: property id -> list of test jobs (see ./check).

job keys: name, mode ('harness' nested module | 'inpkg' overlay into /repo), pkg, run (go test -run regexp),
          quick / thorough: {shards, checks, timeout, env}, race, crash_is_violation
"""


def H(name, pkg, run, quick, thorough=None, **kw):
    d = {"name": name, "mode": "harness", "pkg": pkg, "run": run, "quick": quick, "thorough": thorough or quick}
    d.update(kw)
    return d


def I(name, pkg, run, quick, thorough=None, **kw):
    d = {"name": name, "mode": "inpkg", "pkg": pkg, "run": run, "quick": quick, "thorough": thorough or quick}
    d.update(kw)
    return d


JOBS = {
    "C16": [
        H("grid", "pure", "^TestC16Grid$", {"shards": 1, "checks": 1, "timeout": 300}),
        H("instant", "pure", "^TestC16Instant$", {"shards": 4, "checks": 60000, "timeout": 600}, {"shards": 14, "checks": 1500000, "timeout": 3000}),
        H("rounds", "pure", "^TestC16Rounds$", {"shards": 4, "checks": 60000, "timeout": 600}, {"shards": 14, "checks": 1500000, "timeout": 3000}),
    ],
}

LEVELS = {"C13": "fault_enumeration"}

RULES = {
    "C16": "grid: every (period 1..12 s, genesis in {0,1,7,100}, offset 0..200) cell and rounds 1..250, enumerated completely; "
           "random: period uniform/log-uniform in [1,2^32-1] s, genesis in [0,2^32], offset uniform/log-uniform in [0,2^50]; "
           "boundary-directed instants T(r)-1,T(r),T(r)+1; 64-bit rounds uniform, 2^k±1, adjacent to the overflow guard and to the reserved time buffer. "
           "Oracle: math/big reference. Non-trivial = grid cell, boundary-directed instant, any instant with period>1, or a non-uniform round class; "
           "distinct by (period, genesis, instant|round).",
}

ASSUMPTIONS = {
    "C16": ["math/big arithmetic is correct", "period is a whole number of seconds (as the property states)"],
}
