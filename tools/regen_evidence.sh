#!/bin/bash
# Runs every quick check once at VERIF_SEED=1 (sequentially), then validates evidence files and the manifest.
cd "$(dirname "$0")/.." || exit 1
export VERIF_SEED=${VERIF_SEED:-1}
bad=0
for p in C01 C02 C03 C04 C05 C06 C07 C08 C09 C10 C11 C12 C13 C14 C15 C16 C17 C18 C19 C20; do
  out=$(./check $p --tier quick 2>&1); rc=$?
  echo "$p rc=$rc $(echo "$out" | grep -E '^(OK|VIOLATION)|exit 2' | tail -1)"
  [ $rc -ne 0 ] && bad=1
done
python3-vt - <<'PY'
import json, glob, jsonschema
sch = json.load(open('/root/.vp/EVIDENCE.schema.json'))
for f in sorted(glob.glob('/verif/evidence/*.json')):
    try:
        jsonschema.validate(json.load(open(f)), sch); 
    except Exception as e:
        print("INVALID", f, str(e)[:200])
jsonschema.validate(json.load(open('/verif/MANIFEST.json')), json.load(open('/root/.vp/MANIFEST.schema.json')))
print("evidence + manifest validated")
PY
exit $bad
