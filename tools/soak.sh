#!/bin/bash
# usage: tools/soak.sh <tier> <parallel> <seed>...   -- runs every check at the given seeds, <parallel> at a time; prints non-OK results
TIER=$1; PAR=$2; shift 2
cd "$(dirname "$0")/.." || exit 1
OUT=${SOAK_OUT:-/dev/shm/soak}; mkdir -p "$OUT"
for s in "$@"; do for p in C01 C02 C03 C04 C05 C06 C07 C08 C09 C10 C11 C12 C13 C14 C15 C16 C17 C18 C19 C20; do echo "$s $p"; done; done |
  xargs -P "$PAR" -L 1 bash -c 'VERIF_SEED=$0 ./check $1 --tier '"$TIER"' > '"$OUT"'/$1-$0.log 2>&1; echo "seed=$0 $1 rc=$? $(grep -E "^(OK|VIOLATION)|exit 2" '"$OUT"'/$1-$0.log | tail -1)"'
