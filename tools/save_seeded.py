#!/usr/bin/env python3
"""usage: save_seeded.py <src dir> <N> <prop> <name> <caught:yes|no|pending> <needs text> [detected_by]"""
import json, os, shutil, sys
src, n, prop, name, caught, needs = sys.argv[1:7]
det = sys.argv[7] if len(sys.argv) > 7 else ""
d = f"/verif/seeded/{prop}-{name}"
os.makedirs(d, exist_ok=True)
shutil.copy(f"{src}/change{n}.diff", f"{d}/patch.diff")
demo = f"{src}/demo{n}_test.go"
shutil.copy(demo, f"{d}/demo_test.go.txt")
notes = f"{src}/notes.md"
if os.path.exists(notes):
    shutil.copy(notes, f"{d}/agent_notes.md")
meta = {"property": prop, "name": name, "needs_to_manifest": needs, "origin": "independent sub-agent given only the property text and a scratch worktree",
        "confirmed": "tools/try_seeded.sh: patch applies to a scratch copy of /repo, `go build ./...` succeeds, demonstration passes on the unchanged copy and fails with the patch; agent ran the touched packages' existing tests before/after (see agent_notes.md)",
        "check_run": f"./check {prop} --repo <scratch copy with patch> (quick tier, VERIF_SEED=1)", "caught_by_check": caught, "detected_by": det,
        "demo_file": "demo_test.go.txt (rename to zz_seeded_demo_test.go in the package named on its first line)"}
json.dump(meta, open(f"{d}/meta.json", "w"), indent=1)
print("saved", d)
