#!/bin/bash
# Offline set-up: warm the Go build cache by compiling every harness test binary against /repo.
cd "$(dirname "$0")/.." || exit 1
python3 - <<'PY'
import sys, os
sys.path.insert(0, os.getcwd())
import importlib.machinery, importlib.util
loader = importlib.machinery.SourceFileLoader("check", os.path.join(os.getcwd(), "check"))
spec = importlib.util.spec_from_loader("check", loader); chk = importlib.util.module_from_spec(spec); loader.exec_module(chk)
from jobs import JOBS
chk.prepare_modfiles("/repo")
seen, log, bad = set(), [], 0
for prop, jobs in JOBS.items():
    for j in jobs:
        k = (j["mode"], j["pkg"], bool(j.get("race")))
        if k in seen: continue
        seen.add(k)
        if chk.build(j, "/repo", log) is None: bad += 1
print("\n".join(log))
sys.exit(1 if bad else 0)
PY
