#!/usr/bin/env python3
"""Regenerates /verif/MANIFEST.json from the claim table below + jobs.py; validates against the schema."""
import json, os, sys

VERIF = os.path.dirname(os.path.dirname(os.path.abspath(__file__)))
sys.path.insert(0, VERIF)
from jobs import JOBS, LEVELS  # noqa: E402

# id -> (engine, technique, level text, level note, design ref)
CLAIMS = {
    "C16": ("pure", "property-based testing (rapid) against a math/big reference + exhaustive small grid",
            "Exhaustive on the stated small grid; beyond it random, log-uniform, boundary-directed and overflow-guard-adjacent generation "
            "compared with an arbitrary-precision reference for CurrentRound / NextRound / TimeOfRound. Exploration, not proof: the 2^32 x 2^32 x 2^50 space is sampled.",
            "Trusts math/big; whole-second periods only (as the property states).", "DESIGN.md §3 C16"),
}

PENDING_REASON = "check not built yet in this session (planned, see DESIGN.md §3); not claimed until it exists and is silent on the unchanged tree"


def main():
    props = [json.loads(l)["id"] for l in open(os.path.join(VERIF, "properties.jsonl"))]
    checks, na = [], []
    for pid in props:
        if pid in CLAIMS and pid in JOBS:
            eng, tech, text, note, ref = CLAIMS[pid]
            checks.append({
                "property_id": pid,
                "quick_cmd": f"./check {pid} --tier quick",
                "thorough_cmd": f"./check {pid} --tier thorough",
                "evidence_file": f"/verif/evidence/{pid}.json",
                "replay_cmd_template": f"./check {pid} --replay {{path}}",
                "engine": eng,
                "level_claimed": {"category": LEVELS.get(pid, "exploration"), "text": text, "design_ref": ref},
                "level_note": note,
                "technique": tech,
            })
        else:
            na.append({"property_id": pid, "reason": NA_REASONS.get(pid, PENDING_REASON)})
    man = {
        "version": 1,
        "setup_cmd": "./tools/setup.sh",
        "hooks": {
            "guard": "verif",
            "enable": "go build tag `verif` (checks build /repo with -tags conn_insecure,verif); see DESIGN.md §2.2",
            "baseline_off_cmd": "cd /repo && go test -vet=off -count=1 -timeout 25m ./...",
            "source_commits": HOOK_COMMITS,
            "add_only": True,
        },
        "engines": ENGINES,
        "checks": checks,
        "not_applicable": na,
        "notes": "All checks are property-based tests (pgregory.net/rapid v1.3.0) or enumerations by the same harness code, run by ./check (python3 driver). "
                 "VERIF_SEED selects the rapid seeds of every shard. exit 2 = could not run (never a VIOLATION). Known findings: known_findings.json.",
    }
    json.dump(man, open(os.path.join(VERIF, "MANIFEST.json"), "w"), indent=1)
    try:
        import jsonschema
        jsonschema.validate(man, json.load(open("/root/.vp/MANIFEST.schema.json")))
        print("MANIFEST.json valid;", len(checks), "claimed,", len(na), "not claimed")
    except ImportError:
        print("jsonschema not importable here; wrote MANIFEST.json unvalidated")


NA_REASONS = {}
HOOK_COMMITS = []
ENGINES = [
    {"name": "pure", "path": "harness/pure", "serves_properties": ["C16", "C17", "C20"], "kind_free_text": "rapid property tests calling exported pure functions of /repo through a nested Go module"},
]

if __name__ == "__main__":
    main()
