#!/usr/bin/env python3
"""Regenerates /verif/MANIFEST.json from the claim table below + jobs.py; validates against the schema."""
import json, os, sys

VERIF = os.path.dirname(os.path.dirname(os.path.abspath(__file__)))
sys.path.insert(0, VERIF)
from jobs import JOBS, LEVELS  # noqa: E402

# id -> (engine, technique, level text, level note, design ref)
CLAIMS = {
    "C16": ("pure", "property-based testing (rapid) against a math/big reference + exhaustive small grid",
            "Exhaustive on the stated small grid; beyond it random, log-uniform, boundary-directed and overflow-guard-adjacent generation "
            "compared with an arbitrary-precision reference for CurrentRound / NextRound / TimeOfRound. Exploration, not proof: the 2^32 x 2^32 x 2^50 space is sampled.",
            "Trusts math/big; whole-second periods only (as the property states).", "DESIGN.md §3 C16"),
}

CLAIMS.update({
    "C17": ("pure", "property-based testing (rapid): metamorphic single-field perturbation + permutation invariance + cross-encoding equality",
            "Generated groups/infos over all 5 schemes; every case checks hash equality across all encoding paths, sensitivity to one drawn identified-field perturbation, insensitivity to membership, "
            "rejection of mismatching embedded hashes by the JSON decoder, and permutation invariance of the group hash. Sampling, not proof.",
            "Trusts kyber point marshalling and the hash functions.", "DESIGN.md §3 C17"),
    "C20": ("pure", "property-based round-trip testing (rapid) through real files, the real bolt dkg.db, protobuf and JSON; negative generators for decoders",
            "Round trips of generated groups, key pairs, identities, shares, chain infos, beacons and DKG records (all 12 statuses) compared field-wise by a comparator written in the harness, plus hash equality and encode fixpoints; "
            "decoders must refuse out-of-range thresholds and unknown schemes. Sampling of the value space.",
            "Values restricted to what the system can produce; nil ≡ empty byte strings.", "DESIGN.md §3 C20"),
    "C18": ("store", "model-based testing against a reference sorted map: bounded-exhaustive enumeration + rapid state machine",
            "Every Put/Del sequence up to length 4 (thorough: 6) over a 4-round alphabet followed by every observation incl. all cursor bodies of length <=3 is enumerated for each of 6 back-end configurations; "
            "long random histories with re-puts, deletes, reopen and in-session mutation beyond that. Exhaustive within the stated bound, sampled outside it.",
            "bbolt trusted; postgres back-end unreachable offline.", "DESIGN.md §3 C18"),
    "C01": ("beaconnet", "stateful property-based testing (rapid state machine) of real beacon handlers on an in-memory network with adversarial partials and lying sync peers; oracle = independent re-verification of every stored/served beacon; plus rapid-scripted watch streams against the real HTTP handler and concurrent gRPC/HTTP requesters against a real daemon (answer = exactly the requested round, verifying)",
            "Real beacon.Handler instances (2-6 nodes, 5 schemes, 3 back-ends) driven through generated schedules with forged partials (12 kinds) and scripted hostile sync peers (13 kinds); every base-store Put and every streamed beacon "
            "is re-verified with the harness's own digest and copy of the group key; PublicRand (gRPC) and /public/{r} (HTTP) answers must carry exactly the requested round and verify. Sampling of schedules; interleavings inside drand's goroutines are not enumerated.",
            "BLS/kyber trusted; the daemon-level request job depends on goroutine scheduling for its races (oracle is sound for every interleaving).", "DESIGN.md Part A (A.1) and §3 C01"),
    "C02": ("beaconnet", "stateful property-based testing (rapid state machine); oracle = invariant over each node's complete Put history + cursor scans + pairwise equality",
            "Same engine as C01 with partitions, queued/reordered/duplicated/dropped delivery, stop/restart (same or fresh store), lying sync peers; after every step the Put history must be append-only and gap-free, "
            "scans hole-free with intact previous-signature links, and all nodes byte-identical per round.",
            "Go scheduler interleavings are sampled; postgres not reachable.", "DESIGN.md §3 C02"),
    "C04": ("beaconnet", "stateful property-based testing (rapid state machine) with per-node fake clocks; oracle = every emitted partial stamped with the sender's clock vs. an independent schedule formula",
            "Clock scripts (sub-period steps, bursts, per-node stalls and skew, realignment), restarts and partitions; every PartialBeacon leaving a node is stamped with that node's clock and compared with T(round); "
            "valid partials for clock+2.. must be refused.",
            "Clocks only move forward; stamping at send time is lenient by construction.", "DESIGN.md §3 C04"),
})

CLAIMS["C03"] = ("beaconnet", "property-based testing (rapid) with harness-owned delivery: per-observer contributor subsets around the threshold + junk catalogue; oracle = independent count of valid distinct member partials before each first Put",
    "Sync is disabled and all links are queued, so which partial reaches which node is a generated value; the oracle recomputes, from the network tap, the set of distinct members whose valid partial for exactly (round, prev) reached a node before it stored that round.",
    "Adversary below threshold; scheduling inside a node sampled.", "DESIGN.md §3 C03")

CLAIMS["C05"] = ("beaconnet", "property-based testing (rapid) of generated fault scripts followed by a healed phase; oracle = bounded liveness in fake time + chain scan",
    "Generated partitions / stops / link loss followed by healing; the harness advances fake clocks in 1 s steps and requires every up node to reach its clock round within a stated fake-time budget, gap-free, then one round per period, "
    "and restarted nodes to contribute again. Bounded liveness only; a single budget miss is re-run and counted inconclusive.",
    "Fake-time budget g*c*p/(p-c)+4p; real-time settle heuristics only choose the interleaving.", "DESIGN.md §3 C05")

CLAIMS["C10"] = ("beaconnet", "property-based testing (rapid) with scripted peer sets and injected store corruption; oracles = re-verification of the Put history, bounded convergence in fake time, model-computed expected report set, content comparison after repair",
    "A real node syncs from generated lists of honest / failing / lying scripted peers; separately its base store is corrupted and the chain check's report is compared with a per-back-end model and the repair with the true chain.",
    "Scripted peers speak at the SyncChain channel interface (no gRPC buffering); follow mode via the control API not covered here.", "DESIGN.md §3 C10")

CLAIMS["C11"] = ("streamgate", "stateful property-based testing (rapid) with harness-owned interleaving: gated cursor / Send / AddCallback wrappers around the real SyncChain; oracle = delivered sequence vs. stored chain",
    "The scan-vs-append and hand-over interleavings are explicit generated values because every cursor step, send and callback registration parks at a gate; the delivered sequence must be consecutive from the start round and complete at quiescence.",
    "Gates sit at interface boundaries drand already has (chain.Cursor, SyncStream, CallbackStore); the callback worker goroutines run free.", "DESIGN.md §3 C11")
ENGINES_EXTRA = [{"name": "streamgate", "path": "harness/streamgate", "serves_properties": ["C11", "C12"], "kind_free_text": "real SyncChain / callback store behind gated wrappers so that interleavings are generated values"}]

CLAIMS["C12"] = ("streamgate", "property-based testing (rapid): fault-injected stream consumers against the real callback store (latency/ordering oracle) + in-package stateful test of the partial cache against eviction and size invariants",
    "Generated numbers and behaviours of stalled / slow / failing / disconnecting consumers attached through the real SyncChain while beacons are appended past the queue capacity; and generated partial floods on the real partialCache with invariants checked after every operation.",
    "Two real-time bounds (>= 400x normal) feed the oracle of part (a), each re-examined before it counts.", "DESIGN.md §3 C12")

CLAIMS["C06"] = ("dkgnet", "property-based testing (rapid) of real DKG processes on an in-memory bus with generated listing orders and delivery schedules; oracle = pairwise group equality + harness-side polynomial/threshold-signature arithmetic",
    "Real dkg.Process instances run the key generation / resharing under generated permutations, leaders and delivery policies; the outcome on every finisher is compared pairwise and checked with arithmetic done by the harness (share on polynomial, t-subsets sign, t-1 do not).",
    "Real-time protocol (seconds per case): tens to hundreds of cases per run; message loss not generated.", "DESIGN.md §3 C06")
ENGINES_EXTRA.append({"name": "dkgnet", "path": "harness/dkgnet", "serves_properties": ["C06", "C08", "C09"], "kind_free_text": "real dkg.Process + bolt dkg.db per node on an in-memory DKGClient bus with delivery policies and packet interception"})

CLAIMS["C09"] = ("dkgnet", "property-based testing (rapid): capture-and-mutate of real DKG gossip packets (single-field mutations, re-signing, key substitution, entitlement) delivered to real processes; oracle = rejection + byte-identical store + pristine twin accepted",
    "Pristine packets come from the real sender; each case derives one forgery from the catalogue and requires rejection with unchanged records on a real victim process, then acceptance of the pristine twin.",
    "One network shape (4 members, optional leaver, one joiner); epoch 2 proposals.", "DESIGN.md §3 C09")

CLAIMS["C08"] = ("dkgnet", "stateful property-based testing (rapid state machine) of real DKG processes with real stores against an independent transition relation and store invariants after every step",
    "Histories of operator commands, valid and invalid proposals and real executions on five real processes; after each step every node's current/finished records are compared with the previous snapshot under the harness's own legal-transition relation and preservation invariants.",
    "Real-time executions limit depth (epoch 2-3); TimedOut not generated.", "DESIGN.md §3 C08")

CLAIMS["C07"] = ("beaconnet", "property-based testing (rapid) of generated reshare shapes and hand-over schedules on a running network of real handlers; oracles = chain-identity comparison, C01/C02/C03 invariants across the transition, continuity vs. the fake clock",
    "The harness synthesises the next epoch (same secret, new polynomial) and applies it to real running handlers at generated instants; identity, continuity across the transition round and the exclusive validity of new shares are checked on recorded artefacts.",
    "Core's own orchestration code is re-implemented by the harness; real-DKG identity is covered by C06.", "DESIGN.md §3 C07")

CLAIMS["C19"] = ("daemon", "enumeration of the (id x hash x endpoint) matrix over rapid-generated chain sets and load/stop/reload histories on a real multi-chain daemon; oracle = reference routing function + cryptographic attribution of every answer",
    "The matrix is enumerated completely at every history point of every generated case; which chain answered is decided by which chain's key verifies the answer.",
    "In-process calls to the daemon's service methods and real HTTP handler; single-member chains.", "DESIGN.md §3 C19")
ENGINES_EXTRA.append({"name": "httpsrv", "path": "harness/httpsrv", "serves_properties": ["C01"], "kind_free_text": "the real handler/http server registered with a model client whose watch stream the harness scripts"})
ENGINES_EXTRA.append({"name": "daemon", "path": "inpkg/internal__core", "serves_properties": ["C01", "C13", "C14", "C15", "C19"], "kind_free_text": "real DrandDaemon started in-package (overlay) from harness-written key/group/share files, fake clock, loopback listeners"})

CLAIMS["C14"] = ("daemon", "structure-aware fuzzing with rapid: requests generated from the protobuf descriptors against a real daemon over loopback gRPC/HTTP and against real DKG service objects; oracle = bounded answer + liveness probes afterwards",
    "Requests for every peer-facing RPC are generated by reflection over the message descriptors (absent/zero/typical/hostile per field, every oneof arm) and sent to a real daemon with its interceptors; afterwards probe calls must succeed on every service and the beacon loop must still tick.",
    "Bounds are real-time (5 s vs. normal milliseconds) and re-examined before they count.", "DESIGN.md §3 C14")

CLAIMS["C15"] = ("daemon", "property-based scenario generation (rapid) + exhaustive byte scan of every emitted artefact for every secret scalar under 15 encodings, with a positive control; file-mode check under umask 0/022",
    "All messages, answers, HTTP bodies, log lines and files produced by generated DKG / resharing / beacon-production scenarios are scanned for the long-term keys and shares; the scanner is validated in every case by finding them where they must be.",
    "Whole-scalar encodings only.", "DESIGN.md §3 C15")

CLAIMS["C13"] = ("daemon", "fault enumeration: crash images at every persistence point (verif build-tag hooks) of rapid-generated scripted runs of three real daemons, plus synthesised torn files; oracle = restart from the image + cross-consistency of dkg.db, key files and chain store",
    "Every persistence operation of the node under test in the script is a crash point (before / file created / after, and torn prefixes for in-place writes); each image is restarted with fresh objects and checked for loadability, one-epoch consistency and a valid gap-free chain containing what was served.",
    "bbolt and the file system are trusted for atomicity/ordering below the call level.", "DESIGN.md §3 C13")

PENDING_REASON = "check not built yet in this session (planned, see DESIGN.md §3); not claimed until it exists and is silent on the unchanged tree"


def main():
    props = [json.loads(l)["id"] for l in open(os.path.join(VERIF, "properties.jsonl"))]
    checks, na = [], []
    for pid in props:
        if pid in CLAIMS and pid in JOBS:
            eng, tech, text, note, ref = CLAIMS[pid]
            checks.append({
                "property_id": pid,
                "quick_cmd": f"./check {pid} --tier quick",
                "thorough_cmd": f"./check {pid} --tier thorough",
                "evidence_file": f"/verif/evidence/{pid}.json",
                "replay_cmd_template": f"./check {pid} --replay {{path}}",
                "engine": eng,
                "level_claimed": {"category": LEVELS.get(pid, "exploration"), "text": text, "design_ref": ref},
                "level_note": note,
                "technique": tech,
            })
        else:
            na.append({"property_id": pid, "reason": NA_REASONS.get(pid, PENDING_REASON)})
    man = {
        "version": 1,
        "setup_cmd": "./tools/setup.sh",
        "hooks": {
            "guard": "verif",
            "enable": "go build tag `verif` (checks build /repo with -tags conn_insecure,verif); see DESIGN.md A.5 (and Part B §2.2)",
            "baseline_off_cmd": "cd /repo && GOFLAGS=-mod=mod GOPROXY=off go test -json -vet=off -count=1 -timeout 25m ./...",
            "source_commits": HOOK_COMMITS,
            "add_only": True,
        },
        "engines": ENGINES + ENGINES_EXTRA,
        "checks": checks,
        "not_applicable": na,
        "notes": "All checks are property-based tests (pgregory.net/rapid v1.3.0) or enumerations by the same harness code, run by ./check (python3 driver). "
                 "VERIF_SEED selects the rapid seeds of every shard. exit 2 = could not run (never a VIOLATION). Known findings: known_findings.json.",
    }
    json.dump(man, open(os.path.join(VERIF, "MANIFEST.json"), "w"), indent=1)
    try:
        import jsonschema
        jsonschema.validate(man, json.load(open("/root/.vp/MANIFEST.schema.json")))
        print("MANIFEST.json valid;", len(checks), "claimed,", len(na), "not claimed")
    except ImportError:
        print("jsonschema not importable here; wrote MANIFEST.json unvalidated")


NA_REASONS = {}
HOOK_COMMITS = ["1c88d4a5"]
ENGINES = [
    {"name": "store", "path": "harness/store", "serves_properties": ["C18"], "kind_free_text": "model-based tests of boltdb (trimmed/untrimmed) and memdb stores"},
    {"name": "beaconnet", "path": "harness/beaconnet", "serves_properties": ["C01", "C02", "C03", "C04", "C05", "C07", "C10"], "kind_free_text": "real beacon.Handler instances on an in-memory ProtocolClient network with fake clocks, recording stores, adversary catalogue"},
    {"name": "pure", "path": "harness/pure", "serves_properties": ["C16", "C17", "C20"], "kind_free_text": "rapid property tests calling exported pure functions of /repo through a nested Go module"},
]

if __name__ == "__main__":
    main()
