#!/usr/bin/env python3
"""Runs the pinned suite (guard off) on /repo (or argv[1]) and compares with BASELINE.json's stable_pass set."""
import json, os, subprocess, sys
repo = sys.argv[1] if len(sys.argv) > 1 else "/repo"
pk = sys.argv[2:] or ["./..."]
env = dict(os.environ, GOFLAGS="-mod=mod", GOPROXY="off")
env.pop("GOSUMDB", None)
p = subprocess.run(["go", "test", "-json", "-vet=off", "-count=1", "-timeout", "25m"] + pk, cwd=repo, env=env, capture_output=True, text=True)
res = {}
for line in p.stdout.splitlines():
    try:
        e = json.loads(line)
    except Exception:
        continue
    if e.get("Test") and e.get("Action") in ("pass", "fail", "skip"):
        res[f"{e['Package']}::{e['Test']}"] = e["Action"]
base = json.load(open("/root/.vp/BASELINE.json"))["stable_pass"]
pkgs = {k.split("::")[0] for k in res}
missing = [t for t in base if t.split("::")[0] in pkgs and res.get(t) != "pass"]
print(f"ran {len(res)} tests in {len(pkgs)} packages; baseline tests in those packages: {sum(1 for t in base if t.split('::')[0] in pkgs)}; not passing: {len(missing)}")
for m in missing:
    print("  NOT PASSING:", m, res.get(m))
sys.exit(1 if missing else 0)
