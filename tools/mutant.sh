#!/bin/bash
# usage: tools/mutant.sh <patch.diff | -e 'sed-expr' file> -- <check args...>
# Runs ./check against a scratch copy of /repo with the mutation applied; removes the copy afterwards.
set -u
D=$(mktemp -d /dev/shm/mut.XXXXXX)
trap 'rm -rf "$D"' EXIT
rsync -a --exclude .git /repo/ "$D/"
if [ "$1" = "-e" ]; then
  sed -i -E "$2" "$D/$3" || exit 3
  if diff -q "/repo/$3" "$D/$3" >/dev/null; then echo "mutation did not change $3"; exit 3; fi
  shift 3
else
  (cd "$D" && patch -p1 --no-backup-if-mismatch < "$1") || exit 3
  shift 1
fi
[ "$1" = "--" ] && shift
cd /verif && ./check "$@" --repo "$D"
