#!/bin/bash
# usage: tools/try_seeded.sh <dir with changeN.diff/demoN_test.go> <N> <check-id> [pkgdir-for-demo] [extra go test args]
# Confirms: patch applies + builds; demo passes without / fails with the change; then runs ./check <id> against the patched copy.
set -u
SRC=$1; N=$2; ID=$3; PKG=${4:-}; shift 4 2>/dev/null || shift $#
export GOFLAGS=-mod=mod GOPROXY=off
D=$(mktemp -d /dev/shm/seed.XXXXXX); trap 'rm -rf "$D"' EXIT
rsync -a --exclude .git /repo/ "$D/"
DEMO="$SRC/demo${N}_test.go"; [ -f "$DEMO" ] || DEMO="$SRC/demo_test.go"
if [ -z "$PKG" ]; then PKG=$(head -3 "$DEMO" | grep -o 'internal/[a-z/_-]*\|common/[a-z/_-]*\|handler/[a-z/_-]*\|crypto[a-z/_-]*' | head -1); fi
TAGS=$(head -5 "$DEMO" | grep -o '\-tags[ =][a-z_,]*' | head -1)
echo "demo pkg: $PKG  tags: $TAGS"
cp "$DEMO" "$D/$PKG/zz_seeded_demo_${N}_test.go"
RUN=$(grep -o 'func Test[A-Za-z0-9_]*' "$DEMO" | sed 's/func //' | paste -sd'|')
echo "--- demo on unchanged code"; (cd "$D" && go test $TAGS -count=1 -timeout 300s -run "^($RUN)\$" ./$PKG 2>&1 | grep -v '^{' | tail -3)
(cd "$D" && patch -p1 --no-backup-if-mismatch < "$SRC/change${N}.diff" >/dev/null) || { echo "PATCH FAILED"; exit 3; }
echo "--- build"; (cd "$D" && go build ./... 2>&1 | tail -3)
echo "--- demo with change"; (cd "$D" && go test $TAGS -count=1 -timeout 300s -run "^($RUN)\$" ./$PKG 2>&1 | grep -v '^{' | grep -E "^(--- FAIL|FAIL|ok|PASS)|Error|property|violat" | cut -c1-300 | head -8)
rm -f "$D/$PKG/zz_seeded_demo_${N}_test.go"
echo "--- check $ID"; cd /verif && ./check "$ID" --repo "$D" "$@" 2>&1 | grep -E "^\[violation\]|VIOLATION|^OK|exit 2" | cut -c1-400 | head -4
