#!/usr/bin/env python3
"""Regenerates the seeded-change table in DESIGN.md (between the SEEDED markers) from seeded/*/meta.json."""
import glob, json, os, re
V = os.path.dirname(os.path.dirname(os.path.abspath(__file__)))
rows = []
for m in sorted(glob.glob(os.path.join(V, "seeded", "*", "meta.json"))):
    d = json.load(open(m))
    rows.append(f"| {d['property']} | `{os.path.basename(os.path.dirname(m))}` | {d.get('needs_to_manifest','')} | {d.get('caught_by_check','')} | {d.get('detected_by','')} |")
tab = "<!-- SEEDED:BEGIN -->\n| property | change | needs, to manifest | caught | reported as / remark |\n|---|---|---|---|---|\n" + "\n".join(rows) + "\n<!-- SEEDED:END -->"
p = os.path.join(V, "DESIGN.md")
s = open(p).read()
if "__SEEDED_TABLE__" in s:
    s = s.replace("__SEEDED_TABLE__", tab)
else:
    s = re.sub(r"<!-- SEEDED:BEGIN -->.*?<!-- SEEDED:END -->", lambda _: tab, s, flags=re.S)
open(p, "w").write(s)
print(len(rows), "rows")
