#!/bin/bash
# Applies every seeded change to a scratch copy of /repo and runs the check that is recorded as catching it (quick tier, seed 1).
# Prints one line per change: CAUGHT / MISSED / NOT-RUN. usage: tools/reverify_seeded.sh [pattern]
cd "$(dirname "$0")/.." || exit 1
pat=${1:-}
for d in seeded/*${pat}*/; do
  name=$(basename "$d")
  read -r prop check expect <<<"$(python3 - "$d" <<'PY'
import json,sys,re
m=json.load(open(sys.argv[1]+'/meta.json'))
c=m.get('caught_by_check','')
mm=re.search(r'check (C\d\d)', c)
print(m['property'], mm.group(1) if mm else m['property'], 'no' if c.startswith('no') else 'yes')
PY
)"
  D=$(mktemp -d /dev/shm/rv.XXXXXX)
  rsync -a --exclude .git /repo/ "$D/"
  if ! (cd "$D" && patch -p1 --no-backup-if-mismatch < "/verif/$d/patch.diff" >/dev/null 2>&1); then echo "$name: PATCH-FAILED"; rm -rf "$D"; continue; fi
  out=$(./check "$check" --repo "$D" 2>&1 | grep -v '^KNOWN' | grep -E '^VIOLATION|^OK|exit 2' | tail -1)
  rm -rf "$D"
  case "$out" in
    VIOLATION*) r=CAUGHT;;
    OK*) r=MISSED;;
    *) r="NOT-RUN($out)";;
  esac
  echo "$name [$check, expected caught=$expect]: $r"
done
